#!/bin/bash
# tools_seed.sh verify <patch> <demo.py>        : in a scratch worktree: demo passes clean, fails patched, suite passes patched
# tools_seed.sh run <patch> <Cxx> [Cyy...]      : apply to /repo, run quick checks, revert
mode=$1; shift
if [ "$mode" = "verify" ]; then
  patch=$(readlink -f $1); demo=$(readlink -f $2)
  wt=/tmp/wt_verify_$$
  git -C /repo worktree add -q --detach $wt HEAD || exit 2
  cd $wt
  nbc=$(mktemp -d /tmp/nbc.XXXXXX)
  NUMBA_CACHE_DIR=$nbc /venv/bin/python $demo > $wt.clean.log 2>&1; c=$?
  git apply $patch || { echo "PATCH DOES NOT APPLY"; cd /; git -C /repo worktree remove --force $wt; rm -rf $nbc; exit 3; }
  nbc2=$(mktemp -d /tmp/nbc.XXXXXX)
  NUMBA_CACHE_DIR=$nbc2 /venv/bin/python $demo > $wt.patched.log 2>&1; p=$?
  NUMBA_CACHE_DIR=$nbc2 PATH=/venv/bin:$PATH /venv/bin/python -m pytest -q -p no:cacheprovider --timeout=900 -n 8 > $wt.suite.log 2>&1
  tail -1 $wt.suite.log
  fails=$(grep -c "^FAILED" $wt.suite.log)
  other=$(grep "^FAILED" $wt.suite.log | grep -v "test_comb\[0-0\]" | wc -l)
  echo "demo_clean_rc=$c demo_patched_rc=$p suite_failed=$fails suite_failed_other_than_known=$other"
  tail -3 $wt.patched.log | cut -c1-300
  cd /; git -C /repo worktree remove --force $wt; rm -rf $nbc $nbc2 $wt.clean.log $wt.patched.log $wt.suite.log
elif [ "$mode" = "run" ]; then
  patch=$(readlink -f $1); shift
  cd /repo; git diff --quiet || { echo "repo dirty"; exit 2; }
  git apply $patch || { echo "PATCH DOES NOT APPLY"; exit 3; }
  for c in "$@"; do (cd /verif && ./check $c quick 2>&1 | grep -a -E "^(OK|VIOLATION|KNOWN|HARNESS|  signature|  message)" | cut -c1-400); done
  git -C /repo checkout -- .
fi
