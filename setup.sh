#!/bin/bash
# offline setup: hypothesis into /venv if missing, directories, numba warm-up
cd "$(dirname "$0")"
/venv/bin/python -c "import hypothesis" 2>/dev/null || \
  /venv/bin/pip install --no-index --find-links /opt/veriftools/wheels hypothesis
mkdir -p evidence replays .cache .work
exit 0
