#!/bin/bash
# re-run every registered quick check on the current tree (parallel), validate evidence; usage: tools_refresh.sh [ids...]
cd /verif
ids="$@"
if [ -z "$ids" ]; then ids=$(/venv/bin/python -c "import json;print(' '.join(c['property_id'] for c in json.load(open('MANIFEST.json'))['checks']))"); fi
mkdir -p .work/refresh
for id in $ids; do
  ( ./check $id quick > .work/refresh/$id.log 2>&1; echo "$id rc=$? $(grep -E '^(OK|VIOLATION|KNOWN-FINDING)' .work/refresh/$id.log | cut -c1-120 | tr '\n' ' ')" ) &
  # limit parallelism
  while [ $(jobs -r | wc -l) -ge 6 ]; do sleep 1; done
done
wait
python3-vt - <<'PY'
import json,jsonschema,glob
sch=json.load(open('/root/.vp/EVIDENCE.schema.json'))
m=json.load(open('/verif/MANIFEST.json'))
jsonschema.validate(m,json.load(open('/root/.vp/MANIFEST.schema.json')))
for c in m['checks']:
    try:
        jsonschema.validate(json.load(open('/verif/'+c['evidence_file'])),sch)
    except Exception as e:
        print("EVIDENCE INVALID",c['property_id'],str(e)[:200])
print("manifest + evidence validated")
PY
