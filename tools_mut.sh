#!/bin/bash
# usage: tools_mut.sh <file-relative-to-repo> <python-regex-old> <new> <check ids...>
# applies a one-line textual mutation to /repo, runs quick checks, reverts.
f=$1; old=$2; new=$3; shift 3
cd /repo || exit 2
git diff --quiet || { echo "repo dirty"; exit 2; }
/venv/bin/python - "$f" "$old" "$new" <<'PY'
import sys,re
f,old,new=sys.argv[1:4]
s=open(f).read()
n=s.count(old)
if n<1: print("PATTERN NOT FOUND"); sys.exit(3)
s=s.replace(old,new,1)
open(f,'w').write(s)
print("mutated",f,"(%d occurrences, first replaced)"%n)
PY
rc=$?
if [ $rc -eq 0 ]; then
  for c in "$@"; do (cd /verif && VERIF_BUDGET_S=${VERIF_BUDGET_S:-} ./check $c quick 2>&1 | grep -E "^(OK|VIOLATION|KNOWN|HARNESS|  signature|  message)" | cut -c1-300); done
fi
git -C /repo checkout -- .
