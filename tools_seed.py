#!/venv/bin/python
"""Process the output of a seeding sub-agent.

usage: tools_seed.py process Cxx [extra check ids]   (reads /tmp/seed_Cxx/patch_i.diff, demo_i.py, notes_i.md)
       tools_seed.py index                           (regenerates seeded/INDEX.md from the meta.json files)
       tools_seed.py rerun                           (re-runs the recorded checks against every kept change)

For every change: verify in a scratch worktree that the demonstration passes on the clean tree, fails with
the change, and that the existing suite still passes with the change; then apply the change to /repo, run the
quick checks, undo it, and store everything under /verif/seeded/<prop>_<i>/.
"""
import json
import os
import re
import shutil
import subprocess
import sys
import tempfile

VERIF = os.path.dirname(os.path.abspath(__file__))
REPO = "/repo"


def sh(cmd, cwd=None, env=None, timeout=3600):
    e = dict(os.environ)
    if env:
        e.update(env)
    p = subprocess.run(cmd, shell=isinstance(cmd, str), cwd=cwd, env=e, capture_output=True, text=True, timeout=timeout)
    return p.returncode, p.stdout + p.stderr


def verify(patch, demo):
    wt = tempfile.mkdtemp(prefix="wt_verify_", dir="/tmp")
    os.rmdir(wt)
    rc, out = sh(["git", "-C", REPO, "worktree", "add", "-q", "--detach", wt, "HEAD"])
    res = {}
    try:
        nbc = tempfile.mkdtemp(prefix="nbc.", dir="/tmp")
        res["demo_clean_rc"], o = sh(["/venv/bin/python", demo], cwd=wt, env={"NUMBA_CACHE_DIR": nbc}, timeout=1800)
        shutil.rmtree(nbc, ignore_errors=True)
        rc, o = sh(["git", "apply", patch], cwd=wt)
        if rc != 0:
            res["applies"] = False
            return res
        res["applies"] = True
        nbc = tempfile.mkdtemp(prefix="nbc.", dir="/tmp")
        res["demo_patched_rc"], o = sh(["/venv/bin/python", demo], cwd=wt, env={"NUMBA_CACHE_DIR": nbc}, timeout=1800)
        res["demo_patched_tail"] = o[-400:]
        rc, o = sh("PATH=/venv/bin:$PATH /venv/bin/python -m pytest -q -p no:cacheprovider --timeout=900 -n 4", cwd=wt, env={"NUMBA_CACHE_DIR": nbc}, timeout=3600)
        failed = [l for l in o.splitlines() if l.startswith("FAILED")]
        res["suite_tail"] = o.strip().splitlines()[-1] if o.strip() else ""
        res["suite_failed_other_than_known"] = [l for l in failed if "test_comb[0-0]" not in l]
        shutil.rmtree(nbc, ignore_errors=True)
    finally:
        sh(["git", "-C", REPO, "worktree", "remove", "--force", wt])
        shutil.rmtree(wt, ignore_errors=True)
    return res


def run_checks(patch, checks):
    import fcntl

    lock = open("/tmp/repo_apply.lock", "w")
    fcntl.flock(lock, fcntl.LOCK_EX)  # /repo is shared: one applied change at a time
    try:
        return _run_checks(patch, checks)
    finally:
        fcntl.flock(lock, fcntl.LOCK_UN)
        lock.close()


def _run_checks(patch, checks):
    rc, o = sh(["git", "-C", REPO, "diff", "--quiet"])
    if rc != 0:
        raise SystemExit("repo dirty")
    rc, o = sh(["git", "-C", REPO, "apply", patch])
    if rc != 0:
        raise SystemExit("patch does not apply to /repo: " + o)
    results = {}
    try:
        for c in checks:
            rc, o = sh(["./check", c, "quick"], cwd=VERIF, timeout=3600)
            sigs = re.findall(r"signature: (.*)", o)
            msgs = re.findall(r"message:\s+(.*)", o)
            results[c] = {"exit": rc, "signatures": sigs[:4], "message": (msgs[0][:300] if msgs else "")}
    finally:
        sh(["git", "-C", REPO, "checkout", "--", "."])
    return results


def process(prop, extra):
    src = os.environ.get("SEED_SRC_PREFIX", "/tmp/seed_") + prop
    tag = os.environ.get("SEED_TAG", "")
    for i in (1, 2, 3):
        patch = os.path.join(src, "patch_%d.diff" % i)
        demo = os.path.join(src, "demo_%d.py" % i)
        notes = os.path.join(src, "notes_%d.md" % i)
        if not (os.path.exists(patch) and os.path.exists(demo)) or os.path.getsize(patch) == 0:
            continue
        print("== %s change %d" % (prop, i))
        v = verify(patch, demo)
        print(json.dumps({k: v[k] for k in v if k != "demo_patched_tail"}, indent=1))
        confirmed = v.get("applies") and v.get("demo_clean_rc") == 0 and v.get("demo_patched_rc") not in (0, None) and not v.get("suite_failed_other_than_known")
        checks = [prop] + [c for c in extra if c != prop]
        results = run_checks(patch, checks) if v.get("applies") else {}
        for c, r in results.items():
            print("  %s exit=%s %s %s" % (c, r["exit"], r["signatures"][:2], r["message"][:160]))
        dest = os.path.join(VERIF, "seeded", "%s_%s%d" % (prop, tag, i))
        if confirmed:
            os.makedirs(dest, exist_ok=True)
            shutil.copy(patch, os.path.join(dest, "patch.diff"))
            shutil.copy(demo, os.path.join(dest, "demo.py"))
            note_txt = open(notes).read() if os.path.exists(notes) else ""
            if note_txt:
                with open(os.path.join(dest, "notes.md"), "w") as fh:
                    fh.write(note_txt)
            meta = {
                "property": prop,
                "breaks": open(os.path.join(src, "property.txt")).read().splitlines()[0],
                "needs_to_manifest": extract_needs(note_txt),
                "files_changed": sorted(set(re.findall(r"^\+\+\+ b/(.*)$", open(patch).read(), re.M))),
                "confirmed": {"demo_clean_rc": v["demo_clean_rc"], "demo_patched_rc": v["demo_patched_rc"], "suite_with_change": v["suite_tail"],
                              "commands": ["git worktree add <scratch> HEAD", "NUMBA_CACHE_DIR=<fresh> /venv/bin/python demo.py (clean: 0, patched: non-zero)",
                                           "git apply patch.diff; pytest -q -n 8 (only the pre-existing test_comb[0-0] fails)"]},
                "checks_run": results,
                "caught_by": [c for c, r in results.items() if r["exit"] == 1],
            }
            with open(os.path.join(dest, "meta.json"), "w") as fh:
                json.dump(meta, fh, indent=1)
            print("  kept ->", dest, "caught by", meta["caught_by"])
        else:
            print("  NOT CONFIRMED (not kept)")


def extract_needs(txt):
    m = re.search(r"(?is)(what is needed to manifest|needed to manifest|needs? to manifest|manifest)[^\n]*\n?(.*?)(\n\s*\n|\*\*ran|\*\*what i ran|$)", txt)
    if m:
        return " ".join((m.group(1) + ": " + m.group(2)).split())[:600]
    return " ".join(txt.split())[:400]


def index():
    rows = []
    d = os.path.join(VERIF, "seeded")
    for name in sorted(os.listdir(d)):
        mp = os.path.join(d, name, "meta.json")
        if not os.path.exists(mp):
            continue
        m = json.load(open(mp))
        rows.append((name, m))
    with open(os.path.join(d, "INDEX.md"), "w") as fh:
        fh.write("# Independently produced breaking changes\n\nEach directory holds `patch.diff`, `demo.py` (exits 0 on the clean tree, non-zero with the change), `notes.md` and `meta.json`.\n"
                 "All were confirmed in a scratch worktree (demonstration + unedited test-suite still green with the change) and then run against the quick checks with the change applied to /repo and undone afterwards.\n\n")
        fh.write("| id | property | files | caught by (quick) | first signature | needs to manifest |\n|---|---|---|---|---|---|\n")
        for name, m in rows:
            caught = ", ".join(m["caught_by"]) or "**missed**"
            sig = ""
            for c in m["caught_by"]:
                s = m["checks_run"][c]["signatures"]
                if s:
                    sig = s[0]
                    break
            fh.write("| %s | %s | %s | %s | %s | %s |\n" % (name, m["property"], ", ".join(os.path.basename(f) for f in m["files_changed"]), caught, sig.replace("|", "/"), m["needs_to_manifest"][:220].replace("|", "/")))
        n = len(rows)
        k = sum(1 for _, m in rows if m["caught_by"])
        fh.write("\n%d changes kept, %d caught by at least one quick check.\n" % (n, k))
    print("index written:", len(rows), "changes")


def rerun():
    d = os.path.join(VERIF, "seeded")
    for name in sorted(os.listdir(d)):
        mp = os.path.join(d, name, "meta.json")
        if not os.path.exists(mp):
            continue
        m = json.load(open(mp))
        checks = list(m["checks_run"]) or [m["property"]]
        res = run_checks(os.path.join(d, name, "patch.diff"), checks)
        m["checks_run"] = res
        m["caught_by"] = [c for c, r in res.items() if r["exit"] == 1]
        json.dump(m, open(mp, "w"), indent=1)
        print(name, "caught by", m["caught_by"])


if __name__ == "__main__":
    if sys.argv[1] == "process":
        process(sys.argv[2], sys.argv[3:])
    elif sys.argv[1] == "index":
        index()
    elif sys.argv[1] == "rerun":
        rerun()
    elif sys.argv[1] == "recheck":
        # tools_seed.py recheck <seeded dir name> <check ids...> : (re)run the given checks against one kept change
        name = sys.argv[2]
        mp = os.path.join(VERIF, "seeded", name, "meta.json")
        m = json.load(open(mp))
        res = run_checks(os.path.join(VERIF, "seeded", name, "patch.diff"), sys.argv[3:] or [m["property"]])
        m["checks_run"].update(res)
        m["caught_by"] = [c for c, r in m["checks_run"].items() if r["exit"] == 1]
        json.dump(m, open(mp, "w"), indent=1)
        print(name, "caught by", m["caught_by"], [r["signatures"][:1] for r in res.values()])
