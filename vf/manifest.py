"""Generates MANIFEST.json from the table below (python -m vf.manifest)."""
import json, os

HERE = os.path.dirname(os.path.dirname(os.path.abspath(__file__)))

# id -> (technique, level text, level note, design ref)
CHECKS = {
 "C08": (
  "hypothesis-generated datasets driven through /venv/bin/mchap subprocesses under varied --cores / permuted / subset targets / injected failing locus (fault injection), plus generated in-process operation histories (model-based: first-seen result table)",
  "Exploration: for each generated dataset assemble and call/call-pedigree are run as real subprocesses with 1..6 workers (more workers than loci included), repeated, with permuted and subset target files: record lines must be byte-identical to the single-core lines, each locus exactly once, headers equal apart from date/command line; with the alignments of one locus (any position) contradicting the variant reference every core count must exit non-zero, never print that locus and only print intact lines. In-process: generated histories interleaving locus calls of two programs, DenovoMCMC/CallingMCMC/PedigreeCallingMCMC fits and numpy/numba RNG consumption must return the first-seen result for every repeated operation.",
  "OS scheduling is sampled, not controlled (a race needing a rare interleaving can be missed); subprocess timeouts are inconclusive; no liveness claim.",
  "DESIGN.md §4 C08"),
 "C10": (
  "hypothesis-generated datasets with metamorphic relations across in-process runs: sample subsets, sample order permutations, pool files vs physically merged BAMs (union of alignments)",
  "Exploration: for each generated dataset assemble, call and call-exact are run with a fixed seed on all samples, a permutation, one sample alone, a pool assignment (all-in-one, partition, a sample in two pools) and on single-sample BAMs physically holding the union of each pool's alignments: call/call-exact sample columns must be identical strings, assemble columns must agree on all statistics and on the called haplotype sequences ('.' of the alone run may become named), ALT sets are order independent, pool columns equal the merged-BAM columns.",
  "Samples selected through the documented '<sample><TAB><bam>' list file; read names unique across pooled samples; datasets <= 2 loci x 4 samples.",
  "DESIGN.md §4 C10"),
 "C19": (
  "hypothesis-generated single-sample BAM sets + differential against an independent CIGAR-walking base count (all-inclusive run exposing every depth) and the documented threshold rule with thresholds drawn on realised frequencies/depths",
  "Exploration: generated BAM sets (flags, MAPQ on/around the threshold, deletions/skips/clips, N bases) x read-filter configurations x threshold options: the AD of all four nucleotides at every covered target position equals the count over reads passing exactly the configured filters; with drawn --ind-maf/--ind-mad/--min-ind/--maf/--mad an allele is listed iff it meets the thresholds, a position is emitted iff >=2 alleles qualify, REF is the reference base and REFMASKED iff it fails, ALT is ordered by decreasing mean sample frequency, INFO/FORMAT AD and ADMF are recomputed.",
  "Unpaired reads, base quality 30, no secondary alignments, depth < 1000 (pysam pileup defaults not mentioned by the tool are kept out of play); positions with an undefined sample frequency under --maf are skipped and counted.",
  "DESIGN.md §4 C19"),
 "C20": (
  "hypothesis-generated haplotype VCF text + generated assemble/call/call-exact pipelines; differential against an independent per-site projection, strict parser and pysam",
  "Exploration: generated haplotype VCFs (ALT-less records, SNVs monomorphic among the listed haplotypes, empty SNVPOS, '.' alleles, mixed ploidy, with/without ACP/AFP/SNVDP, filtered records with missing values) and real pipeline outputs: atomize must exit cleanly and emit at most one line per SNVPOS with REF/ALT by first appearance (ALT '.' or omission for monomorphic sites), phased GT = projection of the haplotype GT, PS = record POS, AC/ACP/DS = haplotype-level counts marginalised to the site and normalised to ploidy, DP from SNVDP; output passes the strict parser (no literal None/nan) and pysam.",
  "ACP/DS within 0.0015 (3-decimal inputs and outputs); INFO ACP compared only when every sample has ACP or AFP.",
  "DESIGN.md §4 C20"),
 "C16": (
  "hypothesis PBT on haplotype records written as VCF text with a decimal-exact oracle (thresholds drawn equal to record values, all operators/spellings, invalid strings), plus generated CLI pipelines with rewritten INFO/AFP vectors (zeros, all-zero) through call, call-exact, call-pedigree",
  "Exploration: generated records with R/A Float/Integer INFO fields: ALT after filtering is exactly the passing ALTs in order, a failing reference is kept and masked, frequencies are the named values normalised over retained alleles (masked ref 0, all-zero -> NaN), wrong-length tags and invalid filter strings raise ValueError; at CLI level ALT/REFMASKED/AFPRIOR of the three programs match the decimal oracle, masked/zero-prior alleles never appear in a GT and have zero AFP/ACP/AOP/GP, and records without a usable allele are emitted with NOA/AF0 and missing calls instead of aborting.",
  "Predicate evaluated on the decimal text; frequencies at 1e-6 (single-precision INFO floats); AFPRIOR within the print band.",
  "DESIGN.md §4 C16"),
 "C12": (
  "hypothesis PBT round trip on generated haplotype records parsed from VCF text + generated-dataset pipeline assemble -> call / call-exact with record-by-record comparison",
  "Exploration: thousands of generated fixed-length multi-allelic records (incl. ALT-less, SNV-less, tri-allelic columns, SNVPOS supersets, REFMASKED): encode -> format reproduces the sequences, alleles are numbered by first appearance with REF=0, recovered SNV positions are the polymorphic columns; generated datasets assembled under threshold/report variants (REFMASKED, ALT-less records) and piped through call and call-exact: CHROM/POS/REF/ALT unchanged, genotypes complete unless NOA/AF0, masked reference never called.",
  "Records are parsed by pysam from text as mchap reads them; ALT sequences distinct; pipelines <= 3 loci x 3 samples.",
  "DESIGN.md §4 C12"),
 "C13": (
  "hypothesis PBT with exact rational oracle on generated per-sample posteriors (thresholds drawn on realised occurrence values) + metamorphic CLI relation between a threshold-0 run and thresholded runs with the same seed",
  "Exploration: generated collections of per-sample posteriors with dyadic probabilities and thresholds in [0,1] (incl. 0, 1 and values equal to a realised occurrence): ALT set is exactly the haplotypes reaching the threshold in some sample, reference first and flagged masked iff it fails, ALT order by summed qualifying dosage (ties free), GT '.' exactly for excluded haplotypes and never allele 0 when masked, GP array of G length over the listed alleles incl. a masked reference with sum <= 1; at CLI level ALT/REFMASKED/GT/AFP/GP of thresholded runs are derived from the threshold-0 run's AOP table.",
  "Exact Fractions for dyadic inputs; CLI comparison skips haplotypes within the printing precision of the threshold.",
  "DESIGN.md §4 C13"),
 "C07": (
  "hypothesis-generated datasets x all four calling programs x generated --report sets; strict header-driven text parser + pysam parse + semantic recomputation + differential against in-process internal values",
  "Exploration: every record printed by assemble, call, call-exact and call-pedigree (call* fed with assemble output) on generated datasets (loci without SNVs / reads, mixed ploidy, inbreeding files, reference-masking thresholds, pedigrees) under generated report sets: column count, declared keys, Number=1/A/R/G cardinalities for the record's allele count and each sample's ploidy, Integer/Float lexical form, GT shape/sortedness/range, no python literals; whole output readable by pysam; REF vs FASTA, ALT vs input SNVs and SNVPOS, AC/AN/UAN/NS from GTs, INFO DP/RCOUNT/ACP/AFP/SNVDP from sample columns; every printed float within 0.0005 of the internal value with <=3 decimals.",
  "INFO sums use printed sample values with the accumulated rounding band; internal values are re-derived in-process with the same seed; datasets <= 3 loci x 3 samples.",
  "DESIGN.md §4 C07"),
 "C06": (
  "hypothesis-generated synthetic BAM/VCF/FASTA/BED datasets known by construction + differential against an independent CIGAR-walking pileup; fault injection of reference disagreement",
  "Exploration: generated datasets (CIGARs with indels/clips/skips, flags, MAPQ on/around the threshold, overlapping mates, several read groups and samples per file, SM/ID keys, all keep-flag combinations): every (file, locus, sample) read matrix equals the reference pileup row-by-row by read name; the encoded matrix, RCOUNT, SNVDP, DP, RCALLS and the de-duplicated read distributions are recomputed; the FORMAT fields printed by assemble are compared; datasets whose FASTA or alignment reference disagrees with the SNV file at a covered SNV must end in an error without a record for that locus.",
  "htslib fetch overlap semantics; secondary alignments kept; constant base quality 30; query length >= 2 (pysam 0.24 mis-reads 1-base quality strings); datasets <= 3 loci, <= 3 samples, <= 25 reads per read group and locus.",
  "DESIGN.md §4 C06"),
 "C09": (
  "model-based testing of the array map against a dict (generated op lists), generated sampler move histories with a shared tiny cache and per-step invariant, trajectory differential across cache thresholds, monitored cached-likelihood wrappers in NUMBA_DISABLE_JIT runs, cache-content audit for the pedigree sampler",
  "Exploration: (1) generated set/get histories with tiny sizes (growth + overflow flushes) against a dict model and structural invariants; (2) generated histories of jitted mutation/recombination/dosage sweeps and exchanges on 1-3 chains sharing a small caller-supplied cache: after every move every chain's carried llk equals the recomputed one, and every value left in the cache is audited; (3) assembler traces (all chains) recomputed and bit-identical trajectories for cache thresholds -1/0/100; (4) plain-python runs of the assemble, call and call-pedigree samplers with every return of the cached wrappers re-verified against that sample's own reads; (5) caller-supplied pedigree cache audited after gibbs/MH/swap calls with unequal read counts; call sampler llk trace recomputed.",
  "Likelihood formula itself is C04's job; plain-python (NUMBA_DISABLE_JIT) execution is taken to run the same source; histories <= 25 moves, runs <= 25 steps.",
  "DESIGN.md §4 C09"),
 "C18": (
  "hypothesis PBT over generated pedigrees/states: Gibbs vector vs exact full conditional of an independently enumerated joint, MH ordered-state detailed balance, forced-index extraction of the parental swap acceptance (.py_func with np.random replaced), cache-content audit",
  "Exploration: generated pedigrees (founders/duos/trios/selfing/multi-generation, random labelling, mixed ploidy 2/4[/6], balanced/unbalanced/clonal tau, lambda, errors, unequal read sets padded as call-pedigree pads) with a random joint state, target and allele: gibbs_probabilities equals the normalised joint over the allele options, metropolis_hastings_probabilities is a distribution in detailed balance with it, pair_allele_swap_step's acceptance equals min(1, pi(G')/pi(G)) and restores/applies the state correctly, and every entry left in a caller-supplied likelihood cache is that sample's own likelihood.",
  "Joint = prod_i L_ref x P_ref(g_i | parents) with P_ref by chromosome-copy enumeration (vf/ref/pedigree.py); pedigrees <= 6 individuals, <= 4 haplotypes; states with zero joint probability skipped.",
  "DESIGN.md §4 C18"),
 "C01": (
  "hypothesis-generated instances + exhaustive enumeration of all states per instance; exact transition-kernel extraction (.py_func with random_choice / np.random.rand replaced) checked for lumped detailed balance against an independent reference posterior; recorder-based history check of the sampler orchestration",
  "Exploration: for each generated instance every unordered genotype is enumerated and the exact move distribution of every state is extracted for the mutation sub-step at every SNV, recombination and dosage moves on every interval (incl. full length) and the temperature exchange; row sums, lumped detailed balance w.r.t. (L x P)^T from the reference model, independence of haplotype order, successor-likelihood identities; plus _denovo_assembler histories with recorded move arguments (temperature per chain, carried llk, adjacent-temperature swaps, trace llk).",
  "Python bodies of the jitted functions are taken to have the compiled semantics for float64/int64 inputs; state spaces capped (quick 120, thorough 600 genotypes; ploidy<=5); mixing/convergence is not claimed.",
  "DESIGN.md §4 C01"),
 "C02": (
  "hypothesis-generated instances + exhaustive enumeration of (state, position); Gibbs vector vs exact full conditional, MH lumped detailed balance, exact composition of compound_step over all orders/paths (pi K = pi); differential against call-exact's posterior",
  "Exploration: every sorted genotype and allele position of each generated instance: the probability vector filled by gibbs_options equals the exact conditional of the reference posterior, mh_options rows are distributions satisfying detailed balance for the same target, and for tiny instances the whole compound step (all visiting orders and choice paths, np.random.shuffle/random_choice replaced) is composed exactly and checked for stationarity and sorted output; genotype_posteriors (call-exact) agrees with the same reference.",
  "Reference posterior in vf/ref; strictly positive frequencies (call strips zero-frequency alleles); state space capped at 150/500 genotypes.",
  "DESIGN.md §4 C02"),
 "C03": (
  "hypothesis PBT: differential of the streaming and the full-array call-exact paths against an independent exhaustive posterior in VCF order (admissible-set oracle for the mode, stated float32 tolerance)",
  "Exploration: generated haplotype sets / frequencies (incl. zeros) / ploidies / read sets (incl. none, and deep counts that stress float32): GP and GL entry by entry in VCF order, GT in the arg-max set, GPM, SPM, AFP/ACP/AOP and their sums, zero posterior for zero-prior alleles, and agreement of the two code paths.",
  "Array path is float32 by design: tolerance expm1(4*2^-23*max|log joint|); mode equality only when the top-two gap exceeds the rounding bound.",
  "DESIGN.md §4 C03"),
 "C15": (
  "hypothesis PBT: call-recorder on the sweep (.py_func), jitted all-sites-flip witness, partition invariant on random_breaks, differential single-SNV posterior oracle with thresholds drawn on realised values",
  "Exploration: for generated ploidy/locus sizes (incl. >127 SNVs) the multiset of attempted (haplotype,site) pairs must be exactly all pairs once, a jitted witness run must have flipped every cell, random interval sets must partition the range, and the set of SNVs withheld from / restored into the trace must equal the set whose independent single-SNV homozygous posterior reaches the threshold (>=, decided exactly on realised values).",
  "Reference single-SNV posterior in pure python; |p-threshold|<1e-9 skipped unless the threshold is bit-identical to the code's own value; worker crashes (segfault) are reported as violations with the journalled case.",
  "DESIGN.md §4 C15"),
 "C17": (
  "exhaustive enumeration over small allele sets + hypothesis PBT: sum-to-one over all progeny genotypes / gametes, positivity <=> Mendelian validity predicate; chromosome-copy enumeration model as diagnostic differential",
  "Exploration: thousands of founder/duo/trio configurations (ploidy 2/4/6, unbalanced and clonal tau, lambda, error incl. 0 and 1, frequency vectors incl. zeros), each evaluated over ALL unordered progeny genotypes; gamete pmf summed over all gametes; with zero error the support must coincide with trio_valid/duo_valid.",
  "Sums at 1e-9; lambda>0 only with tau=2 (documented); agreement with the independent meiosis enumeration is recorded, not asserted.",
  "DESIGN.md §4 C17"),
 "C04": (
  "hypothesis PBT: differential against a pure-python reference likelihood + metamorphic relations (haplotype/read permutation, count==duplication, rearranged-genotype identity, wrapper equivalences)",
  "Exploration: thousands of generated read tensors (gaps, partial NaN, exact zeros, weighted duplicates) x genotypes x rearrangement vectors x intervals; every likelihood entry point (assemble, structural change, call wrapper, pedigree wrapper with zero-count padding; jitted and .py_func) must equal the documented formula and satisfy each stated symmetry at 1e-9.",
  "Reference formula in vf/ref/models.py; float64 tolerance 1e-9 relative; counts>=1 except the pedigree padding rows.",
  "DESIGN.md §4 C04"),
 "C05": (
  "exhaustive enumeration of genotype spaces + hypothesis-drawn frequency vectors against a rising-factorial multinomial / Dirichlet-multinomial reference",
  "Exploration: every unordered genotype (and every allele position for the Gibbs conditional) of every (ploidy, n_alleles, F, frequencies) space in a grid, plus random frequency vectors; sums to one, pointwise equality with the reference, exact-conditional identity, assemble==call(flat) identity, permutation-count identity.",
  "Reference prior coded without gamma functions; tolerance 1e-9 on logs and sums; the conditional is compared only where the conditioning event has positive probability.",
  "DESIGN.md §4 C05"),
 "C14": (
  "hypothesis PBT on generated traces against an independent Counter-based empirical distribution (admissible-set oracle for ties)",
  "Exploration: generated assemble / call / call-pedigree traces with repeats, arbitrary within-step row order, all burn-in lengths; posterior(), burn(), mode, mode support, allele frequencies/counts/occurrence, as_array placement and replicate_incongruence are recomputed from a Counter over the retained steps; the call sampler's sorted-output producer invariant is checked on real fits.",
  "Ties admit any maximiser; the incongruence oracle follows each class's documented comparison (support for assemble, mode genotype for call).",
  "DESIGN.md §4 C14"),
 "C11": (
  "exhaustive enumeration + hypothesis PBT vs math.comb and the VCF-spec genotype ordering (jitted int64 semantics)",
  "Exploration: every binomial/multiset coefficient with n<=130 (thorough 400) below 2^53, every genotype of all small (ploidy x alleles) spaces against the VCF specification's recursive ordering, and thousands of hypothesis-drawn genotypes/indices up to ploidy 100 / 1000 alleles against exact big-integer ranks; round trip and successor are checked both ways.",
  "Trusts python's math.comb and the ordering pseudo-code printed in the VCF specification; values with N >= 2^53 are outside the property.",
  "DESIGN.md §4 C11"),
}

ALL = ["C%02d" % i for i in range(1, 21)]

def build():
    checks = []
    for pid in ALL:
        if pid not in CHECKS:
            continue
        tech, text, note, ref = CHECKS[pid]
        checks.append({
            "property_id": pid,
            "quick_cmd": "./check %s quick" % pid,
            "thorough_cmd": "./check %s thorough" % pid,
            "evidence_file": "evidence/%s.json" % pid,
            "replay_cmd_template": "./check %s --replay {path}" % pid,
            "engine": "vf",
            "level_claimed": {"category": "exploration", "text": text, "design_ref": ref},
            "level_note": note,
            "technique": tech,
        })
    na = [{"property_id": p, "reason": "check not built yet (work in progress in this session); see DESIGN.md §4 for the planned generator and oracle"} for p in ALL if p not in CHECKS]
    return {
        "version": 1,
        "setup_cmd": "./setup.sh",
        "hooks": {
            "guard": "MCHAP_VERIF",
            "enable": "no source hooks are needed: observation is by .py_func and module-attribute replacement inside the harness process",
            "baseline_off_cmd": "cd /repo && PATH=/venv/bin:$PATH /venv/bin/python -m pytest -q -p no:cacheprovider --timeout=900",
            "source_commits": [],
            "add_only": True,
        },
        "engines": [{"name": "vf", "path": "vf/", "serves_properties": sorted(CHECKS), "kind_free_text": "hypothesis property-based testing + exhaustive small-domain enumeration against independent reference models; entry ./check"}],
        "checks": checks,
        "not_applicable": na,
        "notes": "All checks: ./check <Cxx> <quick|thorough>; exit 0 held / 1 VIOLATION / 2 harness error. Genuine defects repaired in /repo as 'fix:' commits are listed in known_findings.json.",
    }

if __name__ == "__main__":
    m = build()
    with open(os.path.join(HERE, "MANIFEST.json"), "w") as fh:
        json.dump(m, fh, indent=1)
        fh.write("\n")
    try:
        import jsonschema
        jsonschema.validate(m, json.load(open("/root/.vp/MANIFEST.schema.json")))
        print("MANIFEST valid;", len(m["checks"]), "checks")
    except ImportError:
        print("written (jsonschema not available)")
