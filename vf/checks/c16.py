"""C16 — input allele filtering and prior-frequency options do what they say."""

import os
import re
import shutil
from decimal import Decimal

import numpy as np
from hypothesis import strategies as st

from .. import common
from ..common import Problem, guard
from ..gen import cli as CLI
from ..gen import dataset as D
from ..gen import pipeline as P
from ..ref import vcfparse as V

PROPERTY = "C16"
RULE = (
    "(a) record level: hypothesis writes haplotype records as VCF TEXT (values are exactly what a user wrote) with R/A-length "
    "Float and Integer INFO fields (1-3 decimals), optional REFMASKED, 0-4 ALTs; filters use every operator and numeric "
    "spelling with thresholds drawn preferentially EQUAL to a value in the record; frequency tags incl. zero / all-zero "
    "vectors; invalid filter strings must raise ValueError. Oracle: decimal-exact predicate on the text values. (b) CLI level: "
    "assemble output of generated datasets gets its INFO/AFP rewritten with generated vectors (zeros, all-zero) and is run "
    "through call, call-exact and call-pedigree with --prior-frequencies / --filter-input-haplotypes (one case in three removes "
    "the reference by the filter under the default flat prior). (c) exact posterior with 100-2000 copies of reads that match an "
    "allele of zero prior (F from 0 to 0.5): that allele must get exactly zero posterior and never be called. non-trivial = threshold "
    "equal to a record value, or a filter removing >=1 ALT, or a zero frequency; distinct by decoded case"
)
ASSUMPTIONS = [
    "the predicate is evaluated on the decimal text of the INFO values",
    "frequencies are compared at 1e-6 relative (INFO floats are single precision in htslib), AFPRIOR within the 3-decimal print band",
    "a frequency tag whose length is not R must be rejected with ValueError (the help text requires length R)",
]

OPS = {"=": lambda a, b: a == b, "==": lambda a, b: a == b, ">": lambda a, b: a > b, ">=": lambda a, b: a >= b,
       "<": lambda a, b: a < b, "<=": lambda a, b: a <= b, "!=": lambda a, b: a != b}
VALUES = ["0", "0.0", "0.01", "0.05", "0.09", "0.1", "0.125", "0.2", "0.25", "0.3", "0.333", "0.5", "0.7", "0.75", "0.9", "1", "1.0", "0.001", "0.999"]
BASES = "ACGT"


@st.composite
def record_case(draw):
    n = draw(st.integers(3, 8))
    ref = "".join(draw(st.lists(st.sampled_from(BASES), min_size=n, max_size=n)))
    n_alt = draw(st.integers(0, 4))
    alts = []
    tries = 0
    while len(alts) < n_alt and tries < 40:
        tries += 1
        a = list(ref)
        for _ in range(draw(st.integers(1, 2))):
            c = draw(st.integers(0, n - 1))
            a[c] = draw(st.sampled_from([b for b in BASES if b != ref[c]]))
        a = "".join(a)
        if a != ref and a not in alts:
            alts.append(a)
    n_alt = len(alts)
    zero_bias = draw(st.integers(0, 3)) == 0
    big = draw(st.integers(0, 5)) == 0  # counts beyond single precision (2**24)
    ints = st.sampled_from(["16777216", "16777217", "16777218", "20000000", "20000001", "3"]) if big else st.integers(0, 12).map(str)
    def val():
        return "0" if zero_bias and draw(st.booleans()) else draw(st.sampled_from(VALUES))
    fields = {
        "FR": [val() for _ in range(n_alt + 1)],
        "FA": [val() for _ in range(n_alt)],
        "IR": [draw(ints) for _ in range(n_alt + 1)],
        "IA": [draw(ints) for _ in range(n_alt)],
    }
    if draw(st.integers(0, 7)) == 0:
        fields["FR"] = ["0"] * (n_alt + 1)
    present = {k: draw(st.integers(0, 5)) > 0 for k in fields}
    use_filter = draw(st.booleans())
    filt = None
    if use_filter:
        field = draw(st.sampled_from(["FR", "FA", "IR", "IA"]))
        op = draw(st.sampled_from(sorted(OPS)))
        pool = fields[field] if fields[field] and draw(st.integers(0, 3)) > 0 else (VALUES if field[0] == "F" else [str(i) for i in range(13)] + ["16777216", "16777217", "20000000"])
        v = draw(st.sampled_from(pool))
        if field[0] == "I" and "." not in v and draw(st.integers(0, 2)) == 0:
            v = v + draw(st.sampled_from([".5", ".25", ".999", ".001"]))  # a fractional threshold on an Integer field
        spelling = draw(st.sampled_from(["plain", "plain", "nolead", "trail"]))
        if spelling == "nolead" and v.startswith("0."):
            v = v[1:]
        elif spelling == "trail" and "." not in v:
            v = v + "."
        filt = field + op + v
    freq_tag = draw(st.sampled_from([None, "FR", "FR", "IR", "FA"]))
    return {"kind": "record", "ref": ref, "alts": alts, "fields": fields, "present": present, "refmasked": draw(st.integers(0, 4)) == 0,
            "filter": filt, "frequency_tag": freq_tag, "dot_for_empty": draw(st.booleans())}


HEADER = ("##fileformat=VCFv4.3\n##contig=<ID=chr1,length=100000>\n"
          '##INFO=<ID=FR,Number=R,Type=Float,Description="x">\n##INFO=<ID=FA,Number=A,Type=Float,Description="x">\n'
          '##INFO=<ID=IR,Number=R,Type=Integer,Description="x">\n##INFO=<ID=IA,Number=A,Type=Integer,Description="x">\n'
          '##INFO=<ID=ONE,Number=1,Type=Float,Description="x">\n'
          '##INFO=<ID=REFMASKED,Number=0,Type=Flag,Description="x">\n#CHROM\tPOS\tID\tREF\tALT\tQUAL\tFILTER\tINFO\n')


def parse_record(case):
    import pysam

    path = os.path.join(common.work_dir(), "c16_record.vcf")
    info = []
    for k, vals in case["fields"].items():
        if case["present"][k] and vals:
            info.append(k + "=" + ",".join(vals))
        elif case["present"][k] and not vals and case.get("dot_for_empty"):
            info.append(k + "=.")  # an A-length field of a record without ALT alleles, as assemble writes AC=.
    if case["refmasked"]:
        info.append("REFMASKED")
    with open(path, "w") as fh:
        fh.write(HEADER)
        fh.write("chr1\t%d\t.\t%s\t%s\t.\tPASS\t%s\n" % (11, case["ref"], ",".join(case["alts"]) or ".", ";".join(info) or "."))
    with pysam.VariantFile(path) as vf:
        return next(iter(vf)).copy()


def expected(case):
    """Returns dict(alts, mask, freqs or None for NaN, error=None|'ValueError')."""
    n = len(case["alts"]) + 1
    keep = [True] * n
    mask = bool(case["refmasked"])
    if case["filter"]:
        m = re.match(r"^(\w+?)(==|!=|>=|<=|=|>|<)(.*)$", case["filter"])
        field, op, v = m.group(1), m.group(2), m.group(3)
        thr = Decimal(v if not v.endswith(".") else v + "0") if not v.startswith(".") else Decimal("0" + v)
        vals = case["fields"][field] if case["present"][field] and case["fields"][field] else None
        if vals is not None:
            res = [OPS[op](Decimal(x), thr) for x in vals]
            if field.endswith("R"):
                keep = res
            else:
                keep = [True] + res
        if not keep[0]:
            mask = True
            keep[0] = True
    tag = case["frequency_tag"]
    if tag:
        vals = case["fields"][tag] if case["present"][tag] else []
        if len(vals) != n:
            return {"error": "ValueError"}
        freqs = [Decimal(x) for x in vals]
    else:
        freqs = [Decimal(1) / Decimal(n)] * n
    if mask:
        freqs[0] = Decimal(0)
    freqs = [f for f, k in zip(freqs, keep) if k]
    alts = [a for a, k in zip(case["alts"], keep[1:]) if k]
    tot = sum(freqs)
    return {"error": None, "alts": alts, "mask": mask, "freqs": None if tot == 0 else [float(f / tot) for f in freqs], "keep": keep}


def check_record(ctx, case):
    from mchap.io import LocusPrior

    problems = []
    tag = case["frequency_tag"]
    if tag and case.get("dot_for_empty") and case["present"][tag] and not case["fields"][tag]:
        # an A-length tag written as '.' on an ALT-less record: one missing value, length coincides with the allele count;
        # the documentation asks for an R-length field, behaviour here is unspecified
        ctx.count("record:unspecified_missing_A_tag_skipped")
        return problems
    exp = expected(case)
    on_value = False
    removes = False
    if case["filter"] and not exp["error"]:
        m = re.match(r"^(\w+?)(==|!=|>=|<=|=|>|<)(.*)$", case["filter"])
        v = m.group(3)
        thr = Decimal(("0" + v) if v.startswith(".") else (v + "0" if v.endswith(".") else v))
        vals = case["fields"][m.group(1)] if case["present"][m.group(1)] else []
        on_value = any(Decimal(x) == thr for x in vals)
        removes = len(exp["alts"]) < len(case["alts"])
    zero = bool(case["frequency_tag"]) and not exp["error"] and any(Decimal(x) == 0 for x in case["fields"][case["frequency_tag"]])
    ctx.record(case, on_value or removes or zero, ["record"] + (["threshold_equals_value"] if on_value else []) + (["filter_removes_alt"] if removes else []) + (["zero_frequency"] if zero else []) + (["expects_error"] if exp["error"] else []))
    rec = parse_record(case)
    try:
        locus = LocusPrior.from_variant_record(rec, frequency_tag=case["frequency_tag"], allele_filter=case["filter"])
    except ValueError as e:
        if exp["error"] != "ValueError":
            problems.append(Problem("record:unexpected_ValueError", "filter %r tag %r raised %r on a valid request" % (case["filter"], case["frequency_tag"], e)))
        return problems
    except Exception as e:
        problems.append(Problem("record:raised:%s" % type(e).__name__, "filter %r tag %r: %r" % (case["filter"], case["frequency_tag"], e)))
        return problems
    if exp["error"]:
        problems.append(Problem("record:length_mismatch_accepted", "frequency tag %r with %d values for %d alleles was accepted" % (case["frequency_tag"], len(case["fields"][case["frequency_tag"]]) if case["present"][case["frequency_tag"]] else 0, len(case["alts"]) + 1)))
        return problems
    info_txt = {k: v for k, v in case["fields"].items() if case["present"][k]}
    if list(locus.alts) != exp["alts"]:
        problems.append(Problem("filter:alts", "filter %r on %s: ALT %s, expected %s (REF %s ALT %s)" % (case["filter"], info_txt, list(locus.alts), exp["alts"], case["ref"], case["alts"])))
        return problems
    if bool(locus.mask_reference_allele) != exp["mask"]:
        problems.append(Problem("filter:refmasked", "filter %r on %s (REFMASKED flag %s): mask_reference_allele=%s expected %s" % (case["filter"], info_txt, case["refmasked"], locus.mask_reference_allele, exp["mask"])))
        return problems
    f = np.asarray(locus.frequencies, dtype=float)
    if exp["freqs"] is None:
        if not np.all(np.isnan(f)):
            problems.append(Problem("frequencies:all_zero", "all retained frequencies are zero but frequencies=%s (expected NaN -> AF0)" % f.tolist()))
    else:
        if len(f) != len(exp["freqs"]) or any(abs(a - b) > 1e-6 for a, b in zip(f, exp["freqs"])):
            problems.append(Problem("frequencies:values", "tag %r filter %r on %s: frequencies %s expected %s" % (case["frequency_tag"], case["filter"], info_txt, f.tolist(), exp["freqs"])))
        elif exp["mask"] and f[0] != 0:
            problems.append(Problem("frequencies:masked_ref_nonzero", "masked reference has frequency %r" % f[0]))
    if locus.sequence != case["ref"]:
        problems.append(Problem("filter:ref_changed", "reference sequence changed"))
    return problems


INVALID_FILTERS = ["FR~0.5", "FR>=abc", "FR>", "FR<>0.1", ">=0.5", "FR 0.5", "FR>=0.5x", "FR=>0.5", "NOPE>=0.5", "ONE>=0.5", "FR>=1e-3", "FR>=.", "FR"]


def check_invalid(ctx, case):
    from mchap.io import LocusPrior

    problems = []
    ctx.record(case, True, ["invalid_filter"])
    rec = parse_record(case["record"])
    try:
        LocusPrior.from_variant_record(rec, allele_filter=case["filter"])
    except ValueError:
        return problems
    except Exception as e:
        problems.append(Problem("invalid_filter:wrong_exception:%s" % type(e).__name__, "filter %r raised %r instead of ValueError" % (case["filter"], e)))
        return problems
    problems.append(Problem("invalid_filter:accepted", "invalid filter string %r was accepted" % case["filter"]))
    return problems


@st.composite
def invalid_case(draw):
    rec = draw(record_case())
    rec["present"] = {k: True for k in rec["present"]}
    return {"kind": "invalid", "record": rec, "filter": draw(st.sampled_from(INVALID_FILTERS))}


# ------------------------------------------------------------------ CLI


@st.composite
def cli_case(draw):
    spec = draw(D.dataset_spec(max_loci=3, max_snvs=3, max_samples=3, max_reads=12, mapq_values=(60,), flags=False, min_reads=1))
    ploidy = {s: draw(st.sampled_from([2, 4, 4])) for s in spec["samples"]}
    vectors = [[draw(st.sampled_from(["0", "0", "0.1", "0.25", "0.5", "0.05", "1"])) for _ in range(8)] for _ in range(3)]
    op = draw(st.sampled_from([">=", ">", "<=", "<", "!=", "="]))
    return {"kind": "cli", "spec": spec, "ploidy": ploidy, "vectors": vectors, "filter_op": op, "filter_pick": draw(st.integers(0, 20)),
            "use_prior": draw(st.booleans()), "use_filter": draw(st.booleans()), "all_zero_record": draw(st.integers(0, 3)) == 0,
            "threshold": draw(st.sampled_from([0.2, 0.9, 0.05])), "seed": draw(st.integers(1, 10000)),
            "pedigree_parent": draw(st.booleans()), "filter_field": draw(st.sampled_from(["AFP", "AFP", "AC"])),
            "inbreeding": {s: draw(st.sampled_from([0.0, 0.1, 0.3, 0.5])) for s in spec["samples"]}, "target_zero": draw(st.booleans()),
            "force_ref_mask": draw(st.integers(0, 2)) == 0, "replicate": draw(st.sampled_from([1, 1, 8]))}


def check_cli(ctx, case):
    problems = []
    spec = case["spec"]
    wd = os.path.join(common.work_dir(), "c16")
    shutil.rmtree(wd, ignore_errors=True)
    classes = ["cli"]
    nontrivial = False
    # reference removed by the filter while the prior is the default flat one (no --prior-frequencies)
    force_ref = bool(case.get("force_ref_mask")) and not case.get("target_zero") and not case["all_zero_record"]
    if force_ref:
        case = dict(case, use_prior=False, use_filter=True, filter_field="AFP", filter_op=">")
        classes.append("reference_removed_by_filter_flat_prior")
    if case.get("replicate", 1) > 1:
        # every read several times (new names): the genotypes are then strongly supported by the data
        import copy

        spec = copy.deepcopy(spec)
        for b in spec["bams"]:
            b["reads"] = [dict(r, qname="%s_c%d" % (r["qname"], k)) for k in range(case["replicate"]) for r in b["reads"]]
        classes.append("deep_samples")
    try:
        paths = D.write_dataset(spec, wd)
        kw = dict(ploidy=case["ploidy"], directory=wd)
        out, err = P.run("assemble", P.assemble_args(paths, extra=["--haplotype-posterior-threshold", case["threshold"], "--mcmc-seed", case["seed"], "--report", "INFO/AFP"], **kw))
        if err is not None:
            problems.append(Problem("assemble:raised:%s" % type(err).__name__, CLI.describe(err)))
            return problems
        # rewrite INFO/AFP with generated text values
        lines = out.splitlines()
        new_lines = []
        inputs = []
        ri = 0
        for l in lines:
            if l.startswith("#") or not l:
                new_lines.append(l)
                continue
            c = l.split("\t")
            n_all = 1 + (0 if c[4] == "." else len(c[4].split(",")))
            base = case["vectors"][ri % len(case["vectors"])]
            vec = [base[i % len(base)] for i in range(n_all)]
            if case["all_zero_record"] and ri == 0:
                vec = ["0"] * n_all
            elif case.get("target_zero"):
                # zero prior on an allele (ALT or the reference) that some sample carries in >= 2 copies (well supported by its reads)
                for col in c[9:]:
                    gt = [a for a in col.split(":")[0].split("/") if a != "."]
                    dup = sorted(a for a in set(gt) if gt.count(a) >= 2)
                    if dup:
                        vec = ["0.25" if v == "0" else v for v in vec]
                        alt_dup = [a for a in dup if a != "0"]
                        pick = "0" if ("0" in dup and (case["seed"] % 2 == 0 or not alt_dup)) else alt_dup[(case["seed"] // 2) % len(alt_dup)]
                        vec[int(pick)] = "0"
                        classes.append("zero_prior_on_carried_" + ("reference" if pick == "0" else "alt"))
                        break
            if force_ref:
                vec[0] = "0.01"
            ri += 1
            info = [kv for kv in c[7].split(";") if not kv.startswith("AFP=")] + ["AFP=" + ",".join(vec)]
            c[7] = ";".join(info)
            new_lines.append("\t".join(c))
            ac = [kv[3:] for kv in c[7].split(";") if kv.startswith("AC=")][0]
            inputs.append({"CHROM": c[0], "POS": int(c[1]), "REF": c[3], "ALT": [] if c[4] == "." else c[4].split(","), "AFP": vec, "REFMASKED": "REFMASKED" in c[7].split(";"),
                           "AC": [] if ac == "." else ac.split(",")})
        hap = P.save_vcf("\n".join(new_lines) + "\n", os.path.join(wd, "haps.vcf"))
        ffield = case.get("filter_field", "AFP")
        allv = sorted({v for r in inputs for v in r[ffield]}) or ["0"]
        filt = None
        thr_text = "0.01" if force_ref else allv[case["filter_pick"] % len(allv)]
        if case["use_filter"]:
            filt = ffield + case["filter_op"] + thr_text
        extra = ["--report", "AFPRIOR", "AFP", "AOP", "ACP", "GP"]
        if case["use_prior"] or case.get("target_zero"):
            case = dict(case, use_prior=True)
            extra += ["--prior-frequencies", "AFP"]
        if filt:
            extra += ["--filter-input-haplotypes", filt]
        for name in ("call", "call-exact", "call-pedigree"):
            ex = list(extra)
            kw2 = dict(kw)
            if name != "call-pedigree" and case.get("inbreeding"):
                kw2["inbreeding"] = {s_: (v if (v > 0 or not case.get("target_zero")) else 0.3) for s_, v in case["inbreeding"].items()}  # with F > 0 a zero-prior allele is only excluded if it is really removed
            if name != "call-exact":
                ex += ["--mcmc-seed", case["seed"]]
            if name == "call-pedigree":
                ped = {s: [".", "."] for s in spec["samples"]}
                if case["pedigree_parent"] and len(spec["samples"]) > 1 and case["ploidy"][spec["samples"][0]] * 2 >= case["ploidy"][spec["samples"][1]]:
                    ped[spec["samples"][1]] = [spec["samples"][0], "."]
                ex += ["--sample-parents", P.write_map(os.path.join(wd, "ped.txt"), ped)]
            with guard(problems, name):
                out2, err2 = P.run(name, P.call_args(paths, hap, extra=ex, mcmc=(name != "call-exact"), **kw2))
                if err2 is not None:
                    problems.append(Problem("%s:aborted:%s" % (name, type(err2).__name__), "%s with %s aborted instead of emitting filtered records: %s" % (name, ex, CLI.describe(err2))))
                    return problems
                _, samples, recs = CLI.parse_records(out2)
                if len(recs) != len(inputs):
                    problems.append(Problem(name + ":record_count", "%d records for %d input records" % (len(recs), len(inputs))))
                    return problems
                for inp, rec in zip(inputs, recs):
                    n = len(inp["ALT"]) + 1
                    keep = [True] * n
                    mask = inp["REFMASKED"]
                    if filt:
                        thr = Decimal(thr_text)
                        if ffield == "AFP":
                            keep = [OPS[case["filter_op"]](Decimal(x), thr) for x in inp["AFP"]]
                        else:  # A-length field: the reference is never tested
                            keep = [True] + [OPS[case["filter_op"]](Decimal(x), thr) for x in inp["AC"]]
                        if not keep[0]:
                            mask, keep[0] = True, True
                    exp_alts = [a for a, k in zip(inp["ALT"], keep[1:]) if k]
                    if rec["ALT"] != exp_alts or rec["REF"] != inp["REF"]:
                        problems.append(Problem(name + ":alts_after_filter", "filter %r on AFP=%s: ALT %s expected %s" % (filt, inp["AFP"], rec["ALT"], exp_alts)))
                        return problems
                    if ("REFMASKED" in rec["INFO"]) != mask:
                        problems.append(Problem(name + ":refmasked", "filter %r on AFP=%s (input REFMASKED %s): output REFMASKED %s" % (filt, inp["AFP"], inp["REFMASKED"], "REFMASKED" in rec["INFO"])))
                        return problems
                    freqs = [Decimal(x) for x in inp["AFP"]] if case["use_prior"] else [Decimal(1) / n] * n
                    if mask:
                        freqs[0] = Decimal(0)
                    freqs = [f for f, k in zip(freqs, keep) if k]
                    tot = sum(freqs)
                    usable = tot > 0
                    zero_alleles = [i for i, f in enumerate(freqs) if f == 0]
                    if zero_alleles:
                        nontrivial = True
                    if len(exp_alts) < len(inp["ALT"]):
                        nontrivial = True
                    gts = [rec["samples"][s]["GT"].split("/") for s in samples]
                    filt_col = set(rec["FILTER"].split(";"))
                    if not usable:
                        if not (filt_col & {"NOA", "AF0"}) or any(a != "." for g in gts for a in g):
                            problems.append(Problem(name + ":no_usable_allele", "record with no usable allele (frequencies %s): FILTER %s GT %s" % ([str(f) for f in freqs], rec["FILTER"], gts)))
                            return problems
                        classes.append("no_usable_allele_record")
                        continue
                    if filt_col & {"NOA", "AF0"}:
                        problems.append(Problem(name + ":spurious_filter", "record with usable alleles %s got FILTER %s" % ([str(f) for f in freqs], rec["FILTER"])))
                        return problems
                    prior = V.floats(rec["INFO"].get("AFPRIOR", "."))
                    expp = [float(f / tot) for f in freqs]
                    if len(prior) != len(expp) or any(p is None or abs(p - e) > 0.0005 + 1e-6 for p, e in zip(prior, expp)):
                        problems.append(Problem(name + ":AFPRIOR", "AFPRIOR %s expected %s (prior tag %s, filter %r, AFP=%s)" % (rec["INFO"].get("AFPRIOR"), expp, case["use_prior"], filt, inp["AFP"])))
                        return problems
                    for s, g in zip(samples, gts):
                        if any(a == "." for a in g):
                            problems.append(Problem(name + ":incomplete_gt", "sample %s GT %s in a record with usable alleles" % (s, g)))
                            return problems
                        if any(int(a) in zero_alleles for a in g):
                            problems.append(Problem(name + ":gt_uses_zero_prior_allele", "sample %s GT %s uses an allele with zero prior / masked (frequencies %s)" % (s, g, [str(f) for f in freqs])))
                            return problems
                        for key in ("AFP", "ACP", "AOP"):
                            vals = V.floats(rec["samples"][s][key])
                            if any((vals[i] or 0.0) != 0.0 for i in zero_alleles if i < len(vals)):
                                problems.append(Problem(name + ":posterior_for_zero_prior_allele", "sample %s %s=%s but alleles %s have zero prior" % (s, key, rec["samples"][s][key], zero_alleles)))
                                return problems
                        if zero_alleles:
                            gp = V.floats(rec["samples"][s]["GP"])
                            from ..ref import models as R

                            ploidy = case["ploidy"][s]
                            for i, gen in enumerate(R.vcf_order(ploidy, len(freqs))):
                                if i < len(gp) and (gp[i] or 0.0) != 0.0 and any(a in zero_alleles for a in gen):
                                    problems.append(Problem(name + ":GP_for_zero_prior_allele", "sample %s GP[%d]=%r for genotype %s containing a zero-prior allele" % (s, i, gp[i], gen)))
                                    return problems
    finally:
        shutil.rmtree(wd, ignore_errors=True)
        ctx.record(case, nontrivial, sorted(set(classes)))
    return problems


@st.composite
def sequence_case(draw):
    """Several records converted one after another in the same process (state must not leak between records)."""
    return {"kind": "sequence", "records": [draw(record_case()) for _ in range(draw(st.integers(2, 4)))]}


def check_sequence(ctx, case):
    problems = []
    for i, rec in enumerate(case["records"]):
        sub = check_record(ctx, rec)
        if sub:
            p = sub[0]
            problems.append(Problem("sequence:" + p.signature, "record %d of a sequence of %d converted in one process: %s" % (i + 1, len(case["records"]), p.message)))
            break
    return problems


@st.composite
def deep_zero_case(draw):
    """Exact posterior where the reads overwhelmingly (hundreds to thousands of nats) support an allele whose prior is zero."""
    import itertools

    n_base = draw(st.integers(3, 6))
    n_alleles = [2] * n_base
    all_h = draw(st.permutations([list(h) for h in itertools.product([0, 1], repeat=n_base)]))
    n_h = draw(st.integers(2, 4))
    haps = [list(h) for h in all_h[:n_h]]
    z = draw(st.integers(0, n_h - 1))
    w = [draw(st.integers(1, 8)) for _ in range(n_h)]
    w[z] = 0
    tot = sum(w)
    p = draw(st.sampled_from([0.99, 0.999]))
    reads, counts = [], []
    for _ in range(draw(st.integers(1, 2))):
        reads.append([[p if a == haps[z][j] else (1 - p) for a in range(2)] for j in range(n_base)])
        counts.append(draw(st.integers(100, 2000)))
    return {"kind": "deep_zero", "n_alleles": n_alleles, "haplotypes": haps, "ploidy": draw(st.integers(2, 4)), "frequencies": [x / tot for x in w],
            "inbreeding": draw(st.sampled_from([0.0, 0.02, 0.05, 0.1, 0.3, 0.5])), "reads": reads, "counts": counts}


def check_deep_zero(ctx, case):
    from . import c03

    return [Problem("deep_zero_prior:" + p.signature, p.message) for p in c03.check_function(ctx, case)]


def replay(ctx, case):
    return {"record": check_record, "invalid": check_invalid, "cli": check_cli, "sequence": check_sequence, "deep_zero": check_deep_zero}[case["kind"]](ctx, case)


def run(ctx):
    q = ctx.quick
    ctx.hyp("records", record_case(), check_record, 1500 if q else 10000)
    ctx.hyp("sequence", sequence_case(), check_sequence, 300 if q else 2000)
    ctx.hyp("invalid", invalid_case(), check_invalid, 100 if q else 400)
    ctx.hyp("deep_zero_prior", deep_zero_case(), check_deep_zero, 60 if q else 400)
    ctx.hyp("cli", cli_case(), check_cli, 45 if q else 150)
