"""C07 — output VCF records are well-formed and internally consistent."""

import math
import os
import shutil

import numpy as np
from hypothesis import strategies as st

from .. import common
from ..common import Problem, guard
from ..gen import cli as CLI
from ..gen import dataset as D
from ..gen import pipeline as P
from ..ref import vcfparse as V

PROPERTY = "C07"
RULE = (
    "hypothesis draws a dataset (C06 generator; loci without SNVs / without reads occur) plus per-sample ploidy (2-4, mixed) and "
    "inbreeding, an assemble haplotype threshold (default or high enough to mask the reference), a pedigree for call-pedigree and "
    "two --report sets (subsets of the INFO/.., FORMAT/.. and bare names); assemble, call, call-exact and call-pedigree are run "
    "(call* on the assemble output). Every emitted line goes through a strict header-driven text parser, pysam.VariantFile, a "
    "semantic recomputation (REF vs FASTA, ALT vs SNVs, AC/AN/UAN/NS, INFO sums) and a comparison of every printed number with "
    "the internal value of the same locus (|printed-internal|<=0.0005, <=3 decimals). non-trivial record = >=2 ALTs with samples "
    "of different ploidy, or REFMASKED, or NVAR=0, or RCOUNT=0, with a non-default report set; distinct by decoded case"
)
ASSUMPTIONS = [
    "cardinalities from the emitted header; '.' alone is admitted as a missing vector; G = C(n_alleles+ploidy-1, ploidy) for the sample's GT ploidy",
    "INFO sums recomputed from printed sample values within the accumulated rounding band (n_samples x 0.0005 + 0.0005)",
    "internal values are obtained by running the same method sequence as call_locus in-process with the same seed",
]

REPORT_POOL = ["AFPRIOR", "ACP", "AFP", "AOP", "AOPSUM", "SNVDP", "GP", "GL", "INFO/ACP", "INFO/AFP", "INFO/AOP", "INFO/AOPSUM", "INFO/SNVDP",
               "INFO/AFPRIOR", "FORMAT/ACP", "FORMAT/AFP", "FORMAT/AOP", "FORMAT/GP", "FORMAT/GL", "FORMAT/SNVDP"]


@st.composite
def case_strategy(draw, quick=True):
    spec = draw(D.dataset_spec(max_loci=3, max_snvs=4, max_samples=3, max_reads=15, mapq_values=(60,), flags=False, min_reads=0, exotic=True))
    samples = spec["samples"]
    ploidy = {s: draw(st.sampled_from([2, 2, 4, 3])) for s in samples}
    inbreeding = {s: draw(st.sampled_from([0.0, 0.0, 0.1, 0.5])) for s in samples}
    reports = [sorted(set(draw(st.lists(st.sampled_from(REPORT_POOL), max_size=6)))) for _ in range(2)]
    # a field requested alone (INFO-only / FORMAT-only) exercises the gating of the optional computations
    if draw(st.booleans()):
        reports[1] = [draw(st.sampled_from(["INFO/ACP", "INFO/AFP", "INFO/AOP", "INFO/AOPSUM", "AOPSUM", "INFO/SNVDP", "INFO/AFPRIOR", "FORMAT/ACP", "FORMAT/AFP",
                                             "FORMAT/AOP", "FORMAT/GP", "FORMAT/GL", "FORMAT/SNVDP"]))]
    thr = draw(st.sampled_from([0.2, 0.2, 0.05, 0.9, 0.99]))
    # pedigree over the samples (only even ploidy individuals have parents here)
    ped = {}
    for i, s in enumerate(samples):
        par = [".", "."]
        if i > 0 and ploidy[s] % 2 == 0:
            cands = [p for p in samples[:i] if ploidy[p] >= ploidy[s] // 2]
            for j in range(2):
                if cands and draw(st.booleans()):
                    par[j] = draw(st.sampled_from(cands))
        ped[s] = par
    return {"kind": "programs", "spec": spec, "ploidy": ploidy, "inbreeding": inbreeding, "reports": reports, "threshold": thr, "pedigree": ped,
            "seed": draw(st.integers(1, 10000))}


def close3(printed, internal):
    if internal is None or (isinstance(internal, float) and internal != internal):
        return printed is None
    if printed is None:
        return False
    return abs(printed - float(internal)) <= 0.0005 + 1e-9 * max(1.0, abs(float(internal)))


def compare_internal(problems, label, rec, data, samples):
    """Printed numbers == round(internal, 3)."""
    import mchap.io.vcf.infofields as INFO
    import mchap.io.vcf.formatfields as FORMAT

    for f in data.infofields:
        if f.type != "Float" or f.id not in rec["INFO"]:
            continue
        tok = rec["INFO"][f.id]
        printed = V.floats(tok)
        raw = data.infodata[f]
        if isinstance(raw, dict) or raw is None:
            raw = np.array([np.nan])  # never set by this program: printed as '.'
        internal = np.atleast_1d(np.asarray(raw, dtype=float))
        if any(d > 3 for d in V.decimals(tok)):
            problems.append(Problem(label + ":precision", "INFO %s printed with more than 3 decimals: %s" % (f.id, tok)))
        if len(printed) != len(internal) and not (printed == [None] and np.all(np.isnan(internal))):
            problems.append(Problem(label + ":internal_length", "INFO %s prints %d values, internal array has %d" % (f.id, len(printed), len(internal))))
            continue
        if len(printed) == len(internal) and not all(close3(p, v) for p, v in zip(printed, internal)):
            problems.append(Problem(label + ":rounding", "INFO %s printed %s, internal %s" % (f.id, tok, internal.tolist())))
    for f in data.formatfields:
        if f.type != "Float":
            continue
        for s in samples:
            tok = rec["samples"][s].get(f.id)
            if tok is None:
                continue
            printed = V.floats(tok)
            raw = data.sampledata[f].get(s)
            if isinstance(raw, dict) or raw is None:
                raw = np.array([np.nan])
            internal = np.atleast_1d(np.asarray(raw, dtype=float))
            if any(d > 3 for d in V.decimals(tok)):
                problems.append(Problem(label + ":precision", "FORMAT %s of %s printed with more than 3 decimals: %s" % (f.id, s, tok[:80])))
            if len(printed) != len(internal) and not (printed == [None] and (len(internal) == 0 or np.all(np.isnan(internal)))):
                problems.append(Problem(label + ":internal_length", "FORMAT %s of %s prints %d values, internal array has %d" % (f.id, s, len(printed), len(internal))))
                continue
            if len(printed) == len(internal) and not all(close3(p, v) for p, v in zip(printed, internal)):
                problems.append(Problem(label + ":rounding", "FORMAT %s of %s printed %s, internal %s" % (f.id, s, tok[:120], np.round(internal, 6).tolist()[:20])))


def semantic(problems, label, rec, spec, case, fasta_seq, aux=None):
    """Recompute what can be recomputed from the record itself and the inputs."""
    info = rec["INFO"]
    ref, alts = rec["REF"], rec["ALT"]
    pos = rec["POS"]
    end = int(info["END"]) if "END" in info else None
    contig = fasta_seq[rec["CHROM"]]
    if end is None or ref != contig[pos - 1:end]:
        problems.append(Problem(label + ":REF", "REF %s is not the reference sequence of %s:%d-%s (%s)" % (ref, rec["CHROM"], pos, end, contig[pos - 1:end] if end else None)))
        return
    locus = [l for l in spec["loci"] if l["contig"] == rec["CHROM"] and l["start"] == pos - 1]
    if not locus or locus[0]["stop"] != end:
        problems.append(Problem(label + ":locus", "record %s:%d END %s matches no target locus" % (rec["CHROM"], pos, end)))
        return
    snvs = D.locus_snvs(spec, locus[0])
    snvpos = [] if info.get("SNVPOS") in (None, ".") else [int(x) for x in info["SNVPOS"].split(",")]
    if info.get("NVAR") is not None and int(info["NVAR"]) != len(snvpos):
        problems.append(Problem(label + ":NVAR", "NVAR %s but %d SNVPOS entries" % (info["NVAR"], len(snvpos))))
    if label.startswith("assemble") and snvpos != [s["pos"] - locus[0]["start"] + 1 for s in snvs]:
        problems.append(Problem(label + ":SNVPOS", "SNVPOS %s, input SNVs at relative positions %s" % (snvpos, [s["pos"] - locus[0]["start"] + 1 for s in snvs])))
    by_rel = {s["pos"] - locus[0]["start"]: s for s in snvs}
    for a in alts:
        if len(a) != len(ref):
            problems.append(Problem(label + ":ALT_length", "ALT %s differs in length from REF %s" % (a, ref)))
            continue
        for i, (x, y) in enumerate(zip(ref, a)):
            if x != y:
                if (i + 1) not in snvpos and label.startswith("assemble"):
                    problems.append(Problem(label + ":ALT_outside_SNVPOS", "ALT %s differs from REF at offset %d which is not in SNVPOS %s" % (a, i + 1, snvpos)))
                elif i not in by_rel or y not in by_rel[i]["alleles"]:
                    problems.append(Problem(label + ":ALT_unknown_allele", "ALT %s has base %s at offset %d which is not an allele of an input SNV" % (a, y, i + 1)))
    # counts from GTs
    counts = [0] * (len(alts) + 1)
    ns = 0
    for s, d in rec["samples"].items():
        for a in d["_alleles"]:
            if a < len(counts):
                counts[a] += 1
        if d["_alleles"]:
            ns += 1
        if d["_ploidy"] != case["ploidy"][s]:
            problems.append(Problem(label + ":GT_ploidy", "sample %s GT has %d entries, ploidy is %d" % (s, d["_ploidy"], case["ploidy"][s])))
    exp = {"AC": ",".join(str(x) for x in counts[1:]) if alts else ".", "AN": str(sum(counts)), "UAN": str(sum(1 for x in counts if x > 0)), "NS": str(ns)}
    for k, v in exp.items():
        if info.get(k) != v:
            problems.append(Problem(label + ":" + k, "INFO %s=%s but the GT columns give %s" % (k, info.get(k), v)))
    if "REFMASKED" in info and counts[0] > 0:
        problems.append(Problem(label + ":REFMASKED_GT", "REFMASKED record has a GT using allele 0"))
    # sums over samples
    n_s = len(rec["samples"])

    def sample_sum(key):
        tot = None
        src = rec["samples"]
        if aux is not None and any(key not in d for d in src.values()) and all(key in d for d in aux["samples"].values()):
            # the sample-level field was not requested in this run: take it from the auxiliary run (same inputs and seed,
            # same report set plus the FORMAT fields) provided the calls are identical
            if all(aux["samples"][s_]["GT"] == src[s_]["GT"] for s_ in src):
                src = aux["samples"]
        for d in src.values():
            v = V.floats(d.get(key)) if d.get(key) is not None else None
            if v is None:
                return None
            if tot is None:
                tot = [0.0] * len(v)
            if len(v) != len(tot):
                return None
            tot = [t + (x or 0.0) for t, x in zip(tot, v)]
        return tot

    if "RCOUNT" in info:
        t = sample_sum("RCOUNT")
        if t is not None and int(info["RCOUNT"]) != int(t[0]):
            problems.append(Problem(label + ":INFO_RCOUNT", "INFO RCOUNT %s, samples sum to %s" % (info["RCOUNT"], t[0])))
    if "DP" in info and info["DP"] != ".":
        t = sample_sum("DP")
        if t is not None and int(info["DP"]) != int(t[0]):
            problems.append(Problem(label + ":INFO_DP", "INFO DP %s, samples sum to %s" % (info["DP"], t[0])))
    if snvs == [] and info.get("DP", ".") != ".":
        problems.append(Problem(label + ":INFO_DP_no_snv", "locus without SNVs reports INFO DP %s" % info["DP"]))
    band = n_s * 0.0005 + 0.0005 + 1e-9
    if "ACP" in info and info["ACP"] != ".":
        t = sample_sum("ACP")
        p = V.floats(info["ACP"])
        if t is not None and len(t) == len(p) and not all(x is not None and abs(x - y) <= band for x, y in zip(p, t)):
            problems.append(Problem(label + ":INFO_ACP", "INFO ACP %s, samples sum to %s" % (info["ACP"], t)))
    if "AFP" in info and info["AFP"] != ".":
        t = sample_sum("ACP")
        if t is None and all(d.get("AFP") not in (None, ".") for d in rec["samples"].values()):
            # derive the counts from the sample frequencies and ploidies
            t = None
            for s_, d in rec["samples"].items():
                v = [(x or 0.0) * case["ploidy"][s_] for x in V.floats(d["AFP"])]
                t = v if t is None else ([a + b for a, b in zip(t, v)] if len(v) == len(t) else None)
                if t is None:
                    break
            band = band * max(case["ploidy"].values())
        p = V.floats(info["AFP"])
        tot_ploidy = sum(case["ploidy"].values())
        if t is not None and len(t) == len(p) and not all(x is not None and abs(x - y / tot_ploidy) <= band for x, y in zip(p, t)):
            problems.append(Problem(label + ":INFO_AFP", "INFO AFP %s, sample ACP sum / total ploidy = %s" % (info["AFP"], [y / tot_ploidy for y in t])))
    if "SNVDP" in info and info["SNVDP"] != "." and all("SNVDP" in d for d in rec["samples"].values()):
        t = sample_sum("SNVDP")
        p = V.floats(info["SNVDP"])
        if t is not None and len(t) == len(p) and [int(x) for x in p] != [int(x) for x in t]:
            problems.append(Problem(label + ":INFO_SNVDP", "INFO SNVDP %s, samples sum to %s" % (info["SNVDP"], t)))


def check_output(problems, label, text, spec, case, fasta_seq, workdir, prog_factory=None, aux_text=None):
    import pysam

    header, recs = CLI.split_vcf(text)
    meta, hp = V.parse_header(header)
    for h in hp:
        problems.append(Problem(label + ":header", h))
    parsed = []
    aux_recs = {}
    if aux_text:
        ah, arecs = CLI.split_vcf(aux_text)
        ameta, _ = V.parse_header(ah)
        for al in arecs:
            ar, apr = V.check_record(al, ameta)
            if ar is not None:
                aux_recs[(ar["CHROM"], ar["POS"])] = ar
    for line in recs:
        rec, pr = V.check_record(line, meta)
        for x in pr[:3]:
            problems.append(Problem(label + ":strict:" + x.split(" ")[0] + "_" + x.split(" ")[1] if len(x.split(" ")) > 1 else label + ":strict", "%s | line: %s" % (x, line[:400])))
        if rec is not None:
            parsed.append(rec)
            if not pr:
                semantic(problems, label, rec, spec, case, fasta_seq, aux=aux_recs.get((rec["CHROM"], rec["POS"])))
    # pysam must read the whole output
    path = os.path.join(workdir, label.replace("/", "_") + ".out.vcf")
    with open(path, "w") as fh:
        fh.write(text)
    try:
        n = 0
        with pysam.VariantFile(path) as vf:
            for r in vf:
                n += 1
                for s in r.samples:
                    _ = r.samples[s]["GT"]
                dict(r.info)
        if n != len(recs):
            problems.append(Problem(label + ":pysam_count", "pysam read %d records of %d" % (n, len(recs))))
    except Exception as e:  # pysam rejects the file
        problems.append(Problem(label + ":pysam_rejects", "pysam.VariantFile fails on the output: %r" % (e,)))
    return meta, parsed


def needs_aux(report):
    info_level = any(r in ("INFO/ACP", "INFO/AFP", "INFO/AOP", "INFO/AOPSUM", "AOPSUM", "INFO/SNVDP") for r in report)
    has_format = any(r in ("ACP", "AFP", "FORMAT/ACP", "FORMAT/AFP") for r in report)
    return info_level and not has_format


def replace_report(args, report):
    """Same command with FORMAT/ACP, FORMAT/AFP, FORMAT/AOP, FORMAT/SNVDP added to the report set."""
    args = list(args)
    i = args.index("--report")
    j = i + 1
    while j < len(args) and not str(args[j]).startswith("--"):
        j += 1
    return args[:j] + ["FORMAT/ACP", "FORMAT/AFP", "FORMAT/AOP", "FORMAT/SNVDP"] + args[j:]


def nontrivial_record(rec, case):
    ploidies = {case["ploidy"][s] for s in rec["samples"]}
    return (len(rec["ALT"]) >= 2 and len(ploidies) > 1) or "REFMASKED" in rec["INFO"] or rec["INFO"].get("NVAR") == "0" or rec["INFO"].get("RCOUNT") == "0"


def check_case(ctx, case):
    problems = []
    spec = case["spec"]
    wd = os.path.join(common.work_dir(), "c07")
    shutil.rmtree(wd, ignore_errors=True)
    fasta_seq = {c["name"]: c["seq"] for c in spec["contigs"]}
    n_nt = 0
    n_rec = 0
    try:
        paths = D.write_dataset(spec, wd)
        kw = dict(ploidy=case["ploidy"], inbreeding=case["inbreeding"], directory=wd)
        hap_vcf = None
        for ri, report in enumerate(case["reports"]):
            rep = (["--report"] + report) if report else []
            # ---------------- assemble
            a_args = P.assemble_args(paths, extra=["--haplotype-posterior-threshold", case["threshold"], "--mcmc-seed", case["seed"]] + rep, **kw)
            with guard(problems, "assemble"):
                out, err = P.run("assemble", a_args)
                if err is not None:
                    problems.append(Problem("assemble:raised:%s" % type(err).__name__, "assemble --report %s failed: %s" % (report, CLI.describe(err))))
                    return finish(ctx, case, problems, n_rec, n_nt)
                aux_text = None
                if needs_aux(report):
                    aux_out, aux_err = P.run("assemble", replace_report(a_args, report))
                    aux_text = aux_out if aux_err is None else None
                meta, parsed = check_output(problems, "assemble", out, spec, case, fasta_seq, wd, aux_text=aux_text)
                n_rec += len(parsed)
                n_nt += sum(1 for r in parsed if nontrivial_record(r, case) and report)
                if len(parsed) != len(spec["loci"]):
                    problems.append(Problem("assemble:record_count", "%d records for %d loci" % (len(parsed), len(spec["loci"]))))
                if not problems:
                    internal_compare(problems, "assemble", a_args, parsed, meta["samples"])
                if hap_vcf is None and not problems:
                    hap_vcf = P.save_vcf(out, os.path.join(wd, "haps.vcf"))
            if problems:
                return finish(ctx, case, problems, n_rec, n_nt)
            # ---------------- call programs on the assemble output
            for name in ("call", "call-exact", "call-pedigree"):
                extra = ["--mcmc-seed", case["seed"]] + rep if name != "call-exact" else list(rep)
                if name == "call-pedigree":
                    even = all(p % 2 == 0 for p in case["ploidy"].values())
                    if not even:
                        ctx.count("call-pedigree:odd_ploidy_skipped")
                        continue
                    pedfile = P.write_map(os.path.join(wd, "ped.txt"), case["pedigree"])
                    extra += ["--sample-parents", pedfile]
                kw2 = dict(kw)
                if name == "call-pedigree":
                    kw2["inbreeding"] = None  # not an option of call-pedigree
                c_args = P.call_args(paths, hap_vcf, extra=extra, mcmc=(name != "call-exact"), **kw2)
                with guard(problems, name):
                    out, err = P.run(name, c_args)
                    if err is not None:
                        problems.append(Problem("%s:raised:%s" % (name, type(err).__name__), "%s --report %s failed on assemble output: %s" % (name, report, CLI.describe(err))))
                        return finish(ctx, case, problems, n_rec, n_nt)
                    aux_text = None
                    if needs_aux(report):
                        aux_out, aux_err = P.run(name, replace_report(c_args, report))
                        aux_text = aux_out if aux_err is None else None
                    meta, parsed = check_output(problems, name, out, spec, case, fasta_seq, wd, aux_text=aux_text)
                    n_rec += len(parsed)
                    n_nt += sum(1 for r in parsed if nontrivial_record(r, case) and report)
                    if not problems:
                        internal_compare(problems, name, c_args, parsed, meta["samples"])
                if problems:
                    return finish(ctx, case, problems, n_rec, n_nt)
    finally:
        shutil.rmtree(wd, ignore_errors=True)
    return finish(ctx, case, problems, n_rec, n_nt)


def internal_compare(problems, name, args, parsed, samples):
    prog = CLI.make_program(name, args)
    for rec, locus in zip(parsed, prog.loci()):
        data = prog._locus_data(locus, prog.sample_bams)
        prog.encode_sample_reads(data)
        prog.call_sample_genotypes(data)
        prog.sumarise_vcf_record(data)
        compare_internal(problems, name, rec, data, samples)
        if problems:
            return


def finish(ctx, case, problems, n_rec, n_nt):
    ctx.record(case, n_nt > 0, ["dataset"])
    ctx.evaluations += max(0, n_rec - 1)
    ctx.count("records_checked", n_rec)
    ctx.count("nontrivial_records", n_nt)
    # collapse strict-parser signatures a little
    return problems


def replay(ctx, case):
    return check_case(ctx, case)


def run(ctx):
    q = ctx.quick
    ctx.hyp("programs", case_strategy(q), check_case, 30 if q else 100)
