"""C03 (CLI level) — call-exact sample fields do not depend on the requested --report set."""

import math
import os
import shutil

from hypothesis import strategies as st

from .. import common
from ..common import Problem, guard
from ..gen import cli as CLI
from ..gen import dataset as D
from ..gen import pipeline as P
from ..ref import models as R
from ..ref import vcfparse as V

REPORTS = [[], ["AFP"], ["FORMAT/GP"], ["FORMAT/GL"], ["GP", "GL", "AFP", "AOP", "ACP"], ["INFO/AFP", "AOP"], ["GL", "ACP"],
           ["FORMAT/ACP", "FORMAT/GP"], ["FORMAT/ACP"], ["FORMAT/AOP", "GL"], ["FORMAT/AFP", "FORMAT/GL"], ["FORMAT/AOP"], ["FORMAT/AFP"]]


@st.composite
def cli_case(draw):
    spec = draw(D.dataset_spec(max_loci=3, max_snvs=4, max_samples=3, max_reads=25, mapq_values=(60,), flags=False, min_reads=1))
    ploidy = {s: draw(st.sampled_from([2, 4, 3, 5])) for s in spec["samples"]}
    inbreeding = {s: draw(st.sampled_from([0.0, 0.0, 0.1, 0.5])) for s in spec["samples"]}
    reports = [["AFP", "AOP", "ACP"], ["GP", "GL", "AFP", "AOP", "ACP", "AFPRIOR"]] + list(draw(st.permutations(REPORTS)))[:2]
    reports = list(draw(st.permutations(reports)))
    return {"kind": "cli", "spec": spec, "ploidy": ploidy, "inbreeding": inbreeding, "reports": reports, "seed": draw(st.integers(1, 10000)),
            "threshold": draw(st.sampled_from([0.05, 0.2])), "prior": draw(st.booleans())}


def check_cli(ctx, case):
    problems = []
    spec = case["spec"]
    wd = os.path.join(common.work_dir(), "c03")
    shutil.rmtree(wd, ignore_errors=True)
    nontrivial = False
    try:
        paths = D.write_dataset(spec, wd)
        kw = dict(ploidy=case["ploidy"], inbreeding=case["inbreeding"], directory=wd)
        out, err = P.run("assemble", P.assemble_args(paths, extra=["--haplotype-posterior-threshold", case["threshold"], "--mcmc-seed", case["seed"], "--report", "INFO/AFP"], **kw))
        if err is not None:
            problems.append(Problem("assemble:raised:%s" % type(err).__name__, CLI.describe(err)))
            return problems
        hap = P.save_vcf(out, os.path.join(wd, "haps.vcf"))
        runs = []
        with guard(problems, "call_exact_cli"):
            for rep in case["reports"]:
                extra = (["--report"] + rep) if rep else []
                if case["prior"]:
                    extra += ["--prior-frequencies", "AFP"]
                o, e = P.run("call-exact", P.call_args(paths, hap, extra=extra, mcmc=False, **kw))
                if e is not None:
                    problems.append(Problem("call-exact:raised:%s" % type(e).__name__, "--report %s: %s" % (rep, CLI.describe(e))))
                    return problems
                runs.append((rep, CLI.parse_records(o)))
            samples = runs[0][1][1]
            pairs = [(runs[i], runs[j]) for i in range(len(runs)) for j in range(i + 1, len(runs))]
            for (base_rep, (_, _, base)), (rep, (_, _, recs)) in pairs:
                uses_array = lambda r: any(x.endswith("GP") or x.endswith("GL") for x in r)
                if uses_array(rep) != uses_array(base_rep):
                    nontrivial = True
                for rb, rr in zip(base, recs):
                    for s in samples:
                        db, dr = rb["samples"][s], rr["samples"][s]
                        for k in set(db) & set(dr):
                            if k in ("GT",):
                                if db[k] != dr[k]:
                                    # admissible only on a near tie of GPM
                                    pb, pr = V.floats(db["GPM"])[0], V.floats(dr["GPM"])[0]
                                    if pb is None or pr is None or abs(pb - pr) > 0.001:
                                        problems.append(Problem("cli:GT_depends_on_report", "%s:%d sample %s: GT %s with --report %s but %s with --report %s (GPM %s / %s)" % (rb["CHROM"], rb["POS"], s, db[k], base_rep, dr[k], rep, db["GPM"], dr["GPM"])))
                                        return problems
                                continue
                            vb, vr = V.floats(db[k]), V.floats(dr[k])
                            if len(vb) != len(vr):
                                problems.append(Problem("cli:field_length_depends_on_report", "%s:%d sample %s field %s: %s vs %s" % (rb["CHROM"], rb["POS"], s, k, db[k][:60], dr[k][:60])))
                                return problems
                            if db["GT"] != dr["GT"]:
                                continue
                            tol = 0.0011 if k not in ("GQ", "SQ") else 1.01
                            for x, y in zip(vb, vr):
                                if (x is None) != (y is None) or (x is not None and abs(x - y) > tol * max(1.0, abs(x) if k in ("ACP",) else 1.0)):
                                    problems.append(Problem("cli:field_depends_on_report", "%s:%d sample %s field %s = %s with --report %s but %s with --report %s" % (rb["CHROM"], rb["POS"], s, k, db[k][:80], base_rep, dr[k][:80], rep)))
                                    return problems
            # GP order/length and GL = log10 likelihood consistency where both printed
            for rep, (_, _, recs) in runs:
                for r in recs:
                    n_all = len(r["ALT"]) + 1
                    for s in samples:
                        d = r["samples"][s]
                        if "AFP" in d and d["AFP"] != "." and "." not in d["GT"].split("/"):
                            afp = V.floats(d["AFP"])
                            if abs(sum(x or 0 for x in afp) - 1.0) > 0.0005 * len(afp) + 1e-6:
                                problems.append(Problem("cli:AFP_sum", "%s:%d sample %s AFP=%s sums to %r (--report %s)" % (r["CHROM"], r["POS"], s, d["AFP"], sum(x or 0 for x in afp), rep)))
                                return problems
                        if "ACP" in d and d["ACP"] != "." and "." not in d["GT"].split("/"):
                            acp = V.floats(d["ACP"])
                            if abs(sum(x or 0 for x in acp) - case["ploidy"][s]) > 0.0005 * len(acp) + 1e-6:
                                problems.append(Problem("cli:ACP_sum", "%s:%d sample %s ACP=%s sums to %r, ploidy %d (--report %s)" % (r["CHROM"], r["POS"], s, d["ACP"], sum(x or 0 for x in acp), case["ploidy"][s], rep)))
                                return problems
                        if "GP" in d and d["GP"] != ".":
                            gp = V.floats(d["GP"])
                            n_g = R.n_genotypes(n_all, case["ploidy"][s])
                            if len(gp) != n_g:
                                problems.append(Problem("cli:GP_length", "sample %s GP has %d values, expected %d" % (s, len(gp), n_g)))
                                return problems
                            tot = sum(x or 0 for x in gp)
                            if abs(tot - 1.0) > 0.0005 * len(gp) + 1e-6:
                                problems.append(Problem("cli:GP_sum", "sample %s GP sums to %r" % (s, tot)))
                                return problems
                            # AFP / ACP / AOP must be the corresponding functionals of the printed GP
                            gens = list(R.vcf_order(case["ploidy"][s], n_all))
                            band = 0.0005 * len(gp) + 0.0006
                            for key, fn in (("AFP", lambda g, a: g.count(a) / len(g)), ("ACP", lambda g, a: float(g.count(a))), ("AOP", lambda g, a: 1.0 if a in g else 0.0)):
                                if key in d and d[key] != ".":
                                    vals = V.floats(d[key])
                                    for a in range(n_all):
                                        exp = sum((p or 0.0) * fn(g, a) for g, p in zip(gens, gp))
                                        scale = case["ploidy"][s] if key == "ACP" else 1.0
                                        if a < len(vals) and vals[a] is not None and abs(vals[a] - exp) > band * scale:
                                            problems.append(Problem("cli:%s_vs_GP" % key, "%s:%d sample %s: %s[%d]=%r but the printed GP implies %r (--report %s)" % (r["CHROM"], r["POS"], s, key, a, vals[a], round(exp, 4), rep)))
                                            return problems
                            # true posterior: GP is proportional to 10**GL times the prior of the genotype under the reported AFPRIOR
                            pri = V.floats(r["INFO"].get("AFPRIOR", ".")) if isinstance(r["INFO"].get("AFPRIOR"), str) else []
                            if "GL" in d and d["GL"] != "." and len(gp) <= 4000 and len(pri) == n_all and all(x is not None for x in pri) and sum(pri) > 0:
                                gl = V.floats(d["GL"])
                                if not case["prior"]:
                                    nz = [x > 0 for x in pri]
                                    pri = [1.0 / sum(nz) if z else 0.0 for z in nz]  # default prior: flat over the alleles that are not masked
                                else:
                                    pri = [x / sum(pri) for x in pri]
                                F = case["inbreeding"][s]
                                w = []
                                gl_max = max([x for x in gl if x is not None] or [0.0])
                                for g, l in zip(gens, gl):
                                    pg = R.genotype_prior(tuple(g), pri, F)
                                    w.append(0.0 if (l is None or pg <= 0) else pg * 10.0 ** (l - gl_max))
                                if sum(w) > 0:
                                    exp_gp = [x / sum(w) for x in w]
                                    tol = (0.004 if not case["prior"] else 0.03) + 0.0025 * case["ploidy"][s]
                                    worst = max(range(len(gp)), key=lambda i: abs((gp[i] or 0.0) - exp_gp[i]))
                                    ctx.count("cli:GP_vs_GL_times_prior_checked")
                                    if abs((gp[worst] or 0.0) - exp_gp[worst]) > tol:
                                        problems.append(Problem("cli:GP_not_posterior", "%s:%d sample %s: GP[%d]=%r for genotype %s but likelihood x prior (AFPRIOR %s, F=%s) normalises to %.4f" % (r["CHROM"], r["POS"], s, worst, gp[worst], list(gens[worst]), r["INFO"].get("AFPRIOR"), F, exp_gp[worst])))
                                        return problems
                            gt = [int(a) for a in d["GT"].split("/") if a != "."]
                            if len(gt) == case["ploidy"][s]:
                                idx = R.genotype_rank(gt)
                                gpm = V.floats(d["GPM"])[0]
                                if abs((gp[idx] or 0) - gpm) > 0.0011 or (gp[idx] or 0) < max(x or 0 for x in gp) - 0.0011:
                                    problems.append(Problem("cli:GP_order", "sample %s: GP[%d] (VCF index of GT %s) = %r but GPM = %r / max GP = %r" % (s, idx, d["GT"], gp[idx], gpm, max(x or 0 for x in gp))))
                                    return problems
    finally:
        shutil.rmtree(wd, ignore_errors=True)
        ctx.record(case, nontrivial, ["cli"] + (["cli:array_vs_streaming_pair"] if nontrivial else []))
    return problems


def run(ctx):
    ctx.hyp("cli", cli_case(), check_cli, 25 if ctx.quick else 80)
