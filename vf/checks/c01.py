"""C01 — every assemble move leaves the tempered genotype posterior invariant.

Exact kernel extraction: the python bodies (.py_func) of base_step / interval_step /
chain_swap_step are executed with the module-level `random_choice` (or np.random.rand)
replaced by a recorder, which yields the full move distribution for a given state; forcing
each choice index yields the successor states.  For a generated instance ALL unordered
genotypes are enumerated and lumped detailed balance is tested against the independent
reference posterior (vf/ref/models.py) raised to the inverse temperature.
"""

import itertools
import math

import numpy as np
from hypothesis import strategies as st

from ..common import Problem, guard
from ..gen import reads as G
from ..ref import models as R

PROPERTY = "C01"
RULE = (
    "hypothesis draws an instance (ploidy 1-4[5], 1-3[4] SNVs with 2-4 alleles each, 1-5 reads incl. gaps and weighted "
    "duplicates, F in {0, dyadics}, inverse temperature in (0,1], second temperature for the exchange move); the check then "
    "enumerates EVERY unordered genotype of the instance and, for every SNV / every interval / both structural types, the "
    "exact move distribution of every state; evaluations counts (state x move) kernel rows. non-trivial instance = has a "
    "state with a duplicated haplotype AND a pair of states with non-zero flow in both directions; distinct by decoded instance. "
    "Orchestration histories: the python body of the sampler loop is run with the moves replaced by recorders; every move must "
    "receive the llk of the genotype it receives, the chain's own temperature and buffer, a partition of the sites, and the "
    "locus parameters (log number of possible haplotypes = sum log n_alleles, inbreeding, reads, read counts). Wiring: the "
    "command line options reach the sampler constructor"
)
ASSUMPTIONS = [
    "target pi_T(g) ∝ (L_ref(g) P_ref(g))^T with L_ref, P_ref from vf/ref (pure python)",
    "mutation sub-step lumped over a uniformly chosen haplotype copy (the sweep visits every copy once in random order)",
    "detailed balance compared in log space at 1e-8 absolute; row sums at 1e-9",
    "the python body (.py_func) of a jitted function has the semantics of the compiled function for float64/int64 inputs",
    "reads have strictly positive probability for every existing allele (as produced by the read encoder with error rate > 0)",
]

LTOL = 1e-8


def canon_rows(g):
    return tuple(sorted(tuple(int(x) for x in row) for row in g))


class Recorder:
    """Replacement for random_choice: records the vector, returns a forced index."""

    def __init__(self):
        self.vec = None
        self.force = None

    def __call__(self, probabilities):
        self.vec = np.array(probabilities, dtype=np.float64).copy()
        if self.force is None:
            return int(np.argmax(self.vec))
        return int(self.force)


class Instance:
    def __init__(self, case):
        self.case = case
        self.ploidy = case["ploidy"]
        self.n_alleles = case["n_alleles"]
        self.n_base = len(self.n_alleles)
        self.max_allele = max(self.n_alleles)
        self.F = case["inbreeding"]
        self.reads = case["reads"]
        self.counts = case["counts"]
        self.R = G.reads_array(self.reads, self.n_base, self.max_allele)
        self.C = G.counts_array(self.counts, len(self.reads))
        self.haps = R.all_haplotypes(self.n_alleles)
        self.N = len(self.haps)
        self.log_unique = float(np.log(np.array(self.n_alleles, dtype=np.float64)).sum())
        self.states = [tuple(self.haps[a] for a in g) for g in R.vcf_order(self.ploidy, self.N)]
        self.states = [tuple(sorted(s)) for s in self.states]
        self.index = {s: i for i, s in enumerate(self.states)}
        flat = [1.0 / self.N] * self.N
        hidx = {h: i for i, h in enumerate(self.haps)}
        self.logpi1 = []
        for s in self.states:
            llk = R.log_likelihood(self.reads, s, self.counts)
            lp = math.log(R.genotype_prior(tuple(hidx[h] for h in s), flat, self.F))
            self.logpi1.append(llk + lp)

    def arr(self, state):
        return np.array(state, dtype=np.int8).reshape(self.ploidy, self.n_base)


def db_check(problems, label, inst, K, temp, what):
    """K: dict state_index -> dict successor_index -> prob.  Lumped detailed balance."""
    n_pairs = 0
    for a, row in K.items():
        s = math.fsum(row.values())
        if abs(s - 1.0) > 1e-9 or any(v < -1e-12 for v in row.values()):
            problems.append(Problem(label + ":row_sum", "%s: move distribution of state %s sums to %r (min %r)" % (what, inst.states[a], s, min(row.values()))))
            return n_pairs
        for b, kab in row.items():
            if b <= a:
                continue
            kba = K.get(b, {}).get(a, 0.0)
            if kab <= 0 and kba <= 0:
                continue
            if kab <= 1e-300 or kba <= 1e-300:
                if max(kab, kba) > 1e-12:
                    problems.append(Problem(label + ":one_directional", "%s: flow %s -> %s is %r but reverse is %r" % (what, inst.states[a], inst.states[b], kab, kba)))
                    return n_pairs
                continue
            n_pairs += 1
            lhs = temp * inst.logpi1[a] + math.log(kab)
            rhs = temp * inst.logpi1[b] + math.log(kba)
            if abs(lhs - rhs) > LTOL:
                problems.append(Problem(label + ":detailed_balance", "%s (T=%r, F=%r): pi(g)K(g,g') / pi(g')K(g',g) = exp(%r) for g=%s g'=%s; K=%r, K'=%r" % (what, temp, inst.F, lhs - rhs, inst.states[a], inst.states[b], kab, kba)))
                return n_pairs
    return n_pairs


def mutation_rows(inst, state_arr, llk, j, temp, rec, problems, check_forced=False):
    """Lumped move distribution of the mutation sub-step at site j (mean over copies)."""
    from mchap.assemble import mutation
    from mchap.assemble.likelihood import log_likelihood

    row = {}
    for h in range(inst.ploidy):
        g = state_arr.copy()
        rec.force = int(g[h, j])
        rec.vec = None
        out_llk, _ = mutation.base_step.py_func(g, inst.R, llk, h, j, inst.n_alleles[j], inst.log_unique, inst.F, temp, inst.C, None)
        v = rec.vec
        if v is None or len(v) != inst.n_alleles[j]:
            problems.append(Problem("mutation:vector", "base_step handed %s to random_choice for a site with %d alleles" % (None if v is None else v.tolist(), inst.n_alleles[j])))
            return None
        if not np.array_equal(g, state_arr) or abs(float(out_llk) - llk) > 1e-9 * max(1, abs(llk)):
            problems.append(Problem("mutation:stay", "choosing the current allele changed the state or its llk (%r -> %r)" % (llk, float(out_llk))))
            return None
        for i in range(inst.n_alleles[j]):
            g2 = state_arr.copy()
            g2[h, j] = i
            key = inst.index[canon_rows(g2)]
            row[key] = row.get(key, 0.0) + float(v[i]) / inst.ploidy
        if check_forced:
            alt = (int(state_arr[h, j]) + 1) % inst.n_alleles[j]
            g3 = state_arr.copy()
            rec.force = alt
            out_llk, _ = mutation.base_step.py_func(g3, inst.R, llk, h, j, inst.n_alleles[j], inst.log_unique, inst.F, temp, inst.C, None)
            exp = state_arr.copy()
            exp[h, j] = alt
            true_llk = float(log_likelihood(inst.R, exp, read_counts=inst.C))
            if not np.array_equal(g3, exp) or abs(float(out_llk) - true_llk) > 1e-9 * max(1.0, abs(true_llk)):
                problems.append(Problem("mutation:forced_successor", "forcing allele %d at (h=%d,j=%d): state %s llk %r; expected %s llk %r" % (alt, h, j, g3.tolist(), float(out_llk), exp.tolist(), true_llk)))
                return None
    return row


def structural_rows(inst, state_arr, llk, interval, step_type, temp, rec, problems):
    from mchap.assemble import structural
    from mchap.assemble.likelihood import log_likelihood

    iv = np.array(interval, dtype=np.int64)
    g = state_arr.copy()
    rec.vec = None
    rec.force = 10**6  # "stay" must be the last index; set after we know the length
    # first call: find the vector (force the last index = no move)
    rec.force = None

    class Last:
        pass

    # use a tiny wrapper so that the forced index is the last one
    def call(force):
        g = state_arr.copy()
        rec.vec = None
        rec.force = force
        out_llk, _ = structural.interval_step.py_func(g, inst.R, llk, inst.log_unique, inst.F, iv, step_type, temp, inst.C, None)
        return g, float(out_llk)

    # probe with force=-1 -> python index -1 is invalid for "choice < n_options" logic; use a big index instead
    rec_force_stay = 10**6
    g0, l0 = call(rec_force_stay)
    v = rec.vec
    if v is None:
        # no options: the step must be the identity
        if not np.array_equal(g0, state_arr) or abs(l0 - llk) > 1e-9 * max(1.0, abs(llk)):
            problems.append(Problem("structural:no_option_identity", "no options but state/llk changed"))
            return None
        return {inst.index[canon_rows(state_arr)]: 1.0}
    if not np.array_equal(g0, state_arr) or abs(l0 - llk) > 1e-9 * max(1.0, abs(llk)):
        problems.append(Problem("structural:stay", "choosing 'no move' changed the state or llk"))
        return None
    row = {}
    me = inst.index[canon_rows(state_arr)]
    row[me] = float(v[-1])
    for k in range(len(v) - 1):
        gk, lk = call(k)
        ck = canon_rows(gk)
        if ck not in inst.index:
            problems.append(Problem("structural:invalid_successor", "option %d leads to %s which is not a genotype of the instance" % (k, gk.tolist())))
            return None
        # the option must stay inside the interval
        lo, hi = interval
        outside = [c for c in range(inst.n_base) if not (lo <= c < hi)]
        if outside and not np.array_equal(gk[:, outside], state_arr[:, outside]):
            problems.append(Problem("structural:outside_interval", "option %d changed alleles outside interval %s" % (k, interval)))
            return None
        true_llk = float(log_likelihood(inst.R, gk, read_counts=inst.C))
        if abs(lk - true_llk) > 1e-9 * max(1.0, abs(true_llk)):
            problems.append(Problem("structural:successor_llk", "option %d returned llk %r, recomputed %r" % (k, lk, true_llk)))
            return None
        key = inst.index[ck]
        row[key] = row.get(key, 0.0) + float(v[k])
    return row


def check_instance(ctx, case):
    from mchap.assemble import mutation, structural, tempering
    from mchap.assemble.likelihood import log_likelihood
    from mchap.assemble.prior import log_genotype_prior
    from mchap import jitutils

    problems = []
    inst = Instance(case)
    temp = case["temp"]
    n_states = len(inst.states)
    rec = Recorder()
    perm_seed = case["perm_seed"]
    rng_perm = np.random.RandomState(perm_seed)  # only to pick row orders; value comes from hypothesis
    has_dup_state = inst.ploidy >= 2
    bidir = 0
    n_rows = 0
    classes = ["instance"]
    if any(n > 2 for n in inst.n_alleles):
        classes.append("multiallelic")
    if temp < 1:
        classes.append("T<1")
    if inst.F > 0:
        classes.append("F>0")
    if any(all(v is None for v in cell) for r in inst.reads for cell in r):
        classes.append("gap")
    if inst.counts is not None:
        classes.append("weighted")

    orig_m, orig_s = mutation.random_choice, structural.random_choice
    try:
        mutation.random_choice = rec
        structural.random_choice = rec
        # likelihood from mchap (as carried by the sampler) for every state
        llks = [float(log_likelihood(inst.R, inst.arr(s), read_counts=inst.C)) for s in inst.states]

        # ---------------- (a) mutation
        with guard(problems, "mutation"):
            for j in range(inst.n_base):
                K = {}
                for a, s in enumerate(inst.states):
                    row = mutation_rows(inst, inst.arr(s), llks[a], j, temp, rec, problems, check_forced=(a % 7 == perm_seed % 7))
                    if row is None:
                        return finish(ctx, case, problems, classes, 0, n_rows)
                    K[a] = row
                    n_rows += 1
                    # multiset-only dependence: another row order gives the same lumped row
                    if inst.ploidy > 1 and a % 3 == perm_seed % 3:
                        p = rng_perm.permutation(inst.ploidy)
                        row2 = mutation_rows(inst, np.ascontiguousarray(inst.arr(s)[p]), llks[a], j, temp, rec, problems)
                        if row2 is None:
                            return finish(ctx, case, problems, classes, 0, n_rows)
                        if set(row) != set(row2) or any(abs(row[k] - row2[k]) > 1e-12 for k in row):
                            problems.append(Problem("mutation:row_order_dependence", "site %d state %s: move distribution depends on the order of haplotypes" % (j, s)))
                            return finish(ctx, case, problems, classes, 0, n_rows)
                bidir += db_check(problems, "mutation", inst, K, temp, "mutation at site %d" % j)
                if problems:
                    return finish(ctx, case, problems, classes, bidir, n_rows)

        # ---------------- (b) structural
        with guard(problems, "structural"):
            intervals = [(a, b) for a in range(inst.n_base) for b in range(a + 1, inst.n_base + 1)]
            for step_type, name in ((0, "recombination"), (1, "dosage")):
                for interval in intervals:
                    K = {}
                    for a, s in enumerate(inst.states):
                        row = structural_rows(inst, inst.arr(s), llks[a], interval, step_type, temp, rec, problems)
                        if row is None:
                            return finish(ctx, case, problems, classes, bidir, n_rows)
                        K[a] = row
                        n_rows += 1
                        if inst.ploidy > 1 and a % 3 == (perm_seed + 1) % 3:
                            p = rng_perm.permutation(inst.ploidy)
                            row2 = structural_rows(inst, np.ascontiguousarray(inst.arr(s)[p]), llks[a], interval, step_type, temp, rec, problems)
                            if row2 is None:
                                return finish(ctx, case, problems, classes, bidir, n_rows)
                            if set(row) != set(row2) or any(abs(row[k] - row2[k]) > 1e-12 for k in row):
                                problems.append(Problem(name + ":row_order_dependence", "%s interval %s state %s: move distribution depends on the order of haplotypes: %s vs %s" % (name, interval, s, row, row2)))
                                return finish(ctx, case, problems, classes, bidir, n_rows)
                    full = interval == (0, inst.n_base)
                    bidir += db_check(problems, name + ("_full" if full else ""), inst, K, temp, "%s on interval %s" % (name, interval))
                    if problems:
                        return finish(ctx, case, problems, classes, bidir, n_rows)
    finally:
        mutation.random_choice = orig_m
        structural.random_choice = orig_s

    # ---------------- (c) exchange
    with guard(problems, "exchange"):
        t_hot = case["temp2"]
        t_cold = temp
        if t_hot == t_cold:
            t_hot = t_cold / 2
        if t_hot > t_cold:
            t_hot, t_cold = t_cold, t_hot
        pairs = list(itertools.product(range(n_states), repeat=2))
        if len(pairs) > 150:
            idx = rng_perm.choice(len(pairs), 150, replace=False)
            pairs = [pairs[i] for i in idx]
        orig_rand = np.random.rand
        orig_acc = tempering.chain_swap_acceptance
        seen = {}

        def acc_rec(*a):
            r = orig_acc(*a)
            seen["acc"] = float(r)
            seen["args"] = a
            return r

        try:
            tempering.chain_swap_acceptance = acc_rec
            for (a, b) in pairs:
                gi, gj = inst.arr(inst.states[a]), inst.arr(inst.states[b])
                exp_acc = min(1.0, math.exp(min(50.0, (inst.logpi1[b] - inst.logpi1[a]) * (t_cold - t_hot))))
                results = {}
                for val, label in ((0.0, "swap"), (2.0, "noswap")):
                    np.random.rand = lambda *x, _v=val: _v
                    ci, cj = gi.copy(), gj.copy()
                    seen.clear()
                    li, lj = tempering.chain_swap_step.py_func(ci, llks[a], t_cold, cj, llks[b], t_hot, inst.log_unique, inst.F)
                    results[label] = (ci, cj, float(li), float(lj), seen.get("acc"))
                np.random.rand = orig_rand
                n_rows += 1
                acc = results["swap"][4]
                if acc is None or abs(acc - exp_acc) > 1e-9 * max(1e-300, exp_acc) + 1e-15:
                    problems.append(Problem("exchange:acceptance", "states %s (T=%r) / %s (T=%r): acceptance %r, expected min(1, (pi(gj)/pi(gi))^(Ti-Tj)) = %r" % (inst.states[a], t_cold, inst.states[b], t_hot, acc, exp_acc)))
                    break
                ci, cj, li, lj, _ = results["swap"]
                if not (np.array_equal(ci, gj) and np.array_equal(cj, gi) and li == llks[b] and lj == llks[a]):
                    problems.append(Problem("exchange:swap_effect", "accepted exchange did not swap genotypes and carried likelihoods in place"))
                    break
                ci, cj, li, lj, _ = results["noswap"]
                if not (np.array_equal(ci, gi) and np.array_equal(cj, gj) and li == llks[a] and lj == llks[b]):
                    problems.append(Problem("exchange:reject_effect", "rejected exchange modified state or likelihoods"))
                    break
                # detailed balance on the pair state
                np.random.rand = lambda *x: 2.0
                seen.clear()
                tempering.chain_swap_step.py_func(gj.copy(), llks[b], t_cold, gi.copy(), llks[a], t_hot, inst.log_unique, inst.F)
                np.random.rand = orig_rand
                acc_rev = seen.get("acc")
                if acc > 0 and acc_rev and acc_rev > 0:
                    lhs = t_cold * inst.logpi1[a] + t_hot * inst.logpi1[b] + math.log(acc)
                    rhs = t_cold * inst.logpi1[b] + t_hot * inst.logpi1[a] + math.log(acc_rev)
                    if abs(lhs - rhs) > LTOL:
                        problems.append(Problem("exchange:detailed_balance", "pair (%s,%s) temps (%r,%r): imbalance exp(%r)" % (inst.states[a], inst.states[b], t_cold, t_hot, lhs - rhs)))
                        break
                    bidir += 1
        finally:
            np.random.rand = orig_rand
            tempering.chain_swap_acceptance = orig_acc
    return finish(ctx, case, problems, classes, bidir, n_rows, has_dup_state)


def finish(ctx, case, problems, classes, bidir, n_rows, has_dup_state=True):
    ctx.record(case, bool(has_dup_state and bidir > 0), classes)
    ctx.evaluations += max(0, n_rows - 1)
    ctx.count("kernel_rows", n_rows)
    ctx.count("bidirectional_pairs_checked", bidir)
    return problems


@st.composite
def instance(draw, max_states, max_ploidy, max_base):
    ploidy = draw(st.integers(1, max_ploidy))
    n_alleles = draw(G.n_alleles_vector(1, max_base, 4))
    # shrink the instance until the state space fits
    def n_states(p, na):
        N = 1
        for n in na:
            N *= n
        return math.comb(N + p - 1, p)

    while n_states(ploidy, n_alleles) > max_states:
        if len(n_alleles) > 1 and (max(n_alleles) == 2 or draw(st.booleans())):
            n_alleles = n_alleles[:-1]
        elif max(n_alleles) > 2:
            i = n_alleles.index(max(n_alleles))
            n_alleles[i] -= 1
        else:
            ploidy -= 1
    reads, counts = draw(G.read_set(n_alleles, min_reads=1, max_reads=5, max_count=4))
    F = draw(G.inbreeding)
    temp = draw(st.sampled_from([1.0, 1.0, 0.75, 0.5, 0.3, 0.1]))
    temp2 = draw(st.sampled_from([0.9, 0.6, 0.5, 0.25, 0.05]))
    return {"kind": "instance", "ploidy": ploidy, "n_alleles": n_alleles, "reads": reads, "counts": counts, "inbreeding": F,
            "temp": temp, "temp2": temp2, "perm_seed": draw(st.integers(0, 10**6))}


# ---------------------------------------------------------------- orchestration history


@st.composite
def orchestration_case(draw):
    ploidy = draw(st.integers(1, 4))
    n_alleles = draw(G.n_alleles_vector(1, 4, 3))
    reads, counts = draw(G.read_set(n_alleles, min_reads=1, max_reads=5, counts=True))
    n_t = draw(st.integers(1, 4))
    temps = sorted(set(draw(st.lists(st.sampled_from([0.1, 0.2, 0.4, 0.6, 0.8, 0.9]), min_size=n_t - 1, max_size=n_t - 1)))) + [1.0]
    return {"kind": "orchestration", "ploidy": ploidy, "n_alleles": n_alleles, "reads": reads, "counts": counts,
            "inbreeding": draw(G.inbreeding), "temperatures": temps, "steps": draw(st.integers(1, 6)),
            "cache_threshold": draw(st.sampled_from([-1, 0, 100])), "seed": draw(st.integers(0, 2**31 - 1)),
            "probs": [draw(st.sampled_from([0.0, 0.5, 1.0])) for _ in range(3)], "heated": draw(st.booleans())}


def check_orchestration(ctx, case):
    from mchap.assemble import mcmc as M
    from mchap.assemble import mutation, structural
    from mchap.assemble.likelihood import log_likelihood
    from mchap import jitutils

    problems = []
    n_alleles = case["n_alleles"]
    n_base = len(n_alleles)
    R_arr = G.reads_array(case["reads"], n_base, max(n_alleles))
    C_arr = G.counts_array(case["counts"], len(case["reads"]))
    temps = np.array(case["temperatures"], dtype=np.float64)
    ctx.record(case, len(temps) >= 2 and case["steps"] >= 2, ["orchestration", "n_temps=%d" % len(temps)])
    log = []
    o_mut, o_struct, o_swap = mutation.compound_step, structural.compound_step, M.chain_swap_step

    exp_log_unique = float(sum(math.log(n) for n in n_alleles))

    def params(what, kw):
        # the model parameters every move receives are those of the locus: number of possible haplotypes, inbreeding, data
        lu = float(kw["log_unique_haplotypes"])
        if abs(lu - exp_log_unique) > 1e-9 * max(1.0, exp_log_unique):
            problems.append(Problem("orchestration:log_unique_haplotypes", "%s received log(number of possible haplotypes) = %r, the allele counts %s give %r" % (what, lu, n_alleles, exp_log_unique)))
        if float(kw["inbreeding"]) != float(case["inbreeding"]):
            problems.append(Problem("orchestration:inbreeding", "%s received inbreeding %r, the sampler was given %r" % (what, float(kw["inbreeding"]), case["inbreeding"])))
        if "reads" in kw and (kw["reads"].shape != R_arr.shape or not np.array_equal(kw["reads"], R_arr, equal_nan=True)):
            problems.append(Problem("orchestration:reads", "%s received another read tensor" % what))
        if "read_counts" in kw and (kw["read_counts"] is None or not np.array_equal(kw["read_counts"], C_arr)):
            problems.append(Problem("orchestration:read_counts", "%s received read counts %s, the sampler was given %s" % (what, None if kw["read_counts"] is None else np.asarray(kw["read_counts"]).tolist(), C_arr.tolist())))
        if "n_alleles" in kw and list(np.asarray(kw["n_alleles"])) != list(n_alleles):
            problems.append(Problem("orchestration:n_alleles", "%s received allele counts %s for %s" % (what, list(np.asarray(kw["n_alleles"])), n_alleles)))

    def rec_mut(**kw):
        params("mutation sweep", kw)
        log.append(("mutation", float(kw["temp"]), kw["genotype"].copy(), float(kw["llk"]), kw["genotype"]))
        return o_mut(**kw)

    def rec_struct(**kw):
        params("structural move", kw)
        log.append(("structural%d" % kw["step_type"], float(kw["temp"]), kw["genotype"].copy(), float(kw["llk"]), kw["genotype"], np.array(kw["intervals"]).copy()))
        return o_struct(**kw)

    def rec_swap(**kw):
        params("exchange move", kw)
        log.append(("swap", float(kw["temp_i"]), float(kw["temp_j"]), kw["genotype_i"].copy(), float(kw["llk_i"]), kw["genotype_j"].copy(), float(kw["llk_j"])))
        return o_swap(**kw)

    with guard(problems, "orchestration"):
        try:
            mutation.compound_step = rec_mut
            structural.compound_step = rec_struct
            M.chain_swap_step = rec_swap
            np.random.seed(case["seed"] % 2**32)
            jitutils.seed_numba(case["seed"] % 2**32)
            g0 = np.zeros((case["ploidy"], n_base), dtype=np.int8)
            break_dist = M._point_beta_probabilities(n_base, 1.0, 3.0)
            import warnings

            with warnings.catch_warnings():
                warnings.simplefilter("ignore")
                gt, lt = M._denovo_assembler.py_func(
                    genotype=g0, inbreeding=case["inbreeding"], reads=R_arr, read_counts=C_arr,
                    n_alleles=np.array(n_alleles, dtype=np.int64), steps=case["steps"], break_dist=break_dist,
                    recombination_step_probability=case["probs"][0], partial_dosage_step_probability=case["probs"][1],
                    dosage_step_probability=case["probs"][2], temperatures=temps, return_heated_trace=case["heated"],
                    llk_cache_threshold=case["cache_threshold"])
        finally:
            mutation.compound_step, structural.compound_step, M.chain_swap_step = o_mut, o_struct, o_swap
        n_t = len(temps)
        # every move receives the llk of the genotype it receives
        for ev in log:
            if ev[0] == "swap":
                _, ti, tj, gi, li, gj, lj = ev
                if not (ti > tj) or list(temps).index(ti) - list(temps).index(tj) != 1:
                    problems.append(Problem("orchestration:swap_temperatures", "exchange attempted between inverse temperatures %r and %r of ladder %s" % (ti, tj, temps.tolist())))
                    break
                for g, l in ((gi, li), (gj, lj)):
                    t = float(log_likelihood(R_arr, g, read_counts=C_arr))
                    if abs(t - l) > 1e-9 * max(1.0, abs(t)):
                        problems.append(Problem("orchestration:swap_llk", "exchange received llk %r for a genotype whose llk is %r" % (l, t)))
                        break
            else:
                t = float(log_likelihood(R_arr, ev[2], read_counts=C_arr))
                if abs(t - ev[3]) > 1e-9 * max(1.0, abs(t)):
                    problems.append(Problem("orchestration:carried_llk", "%s received llk %r for a genotype whose llk is %r" % (ev[0], ev[3], t)))
                    break
                if ev[0].startswith("structural"):
                    iv = ev[5]
                    if not (iv[0, 0] == 0 and iv[-1, 1] == n_base and np.all(iv[1:, 0] == iv[:-1, 1]) and np.all(iv[:, 1] > iv[:, 0])):
                        problems.append(Problem("orchestration:intervals", "structural step received intervals %s for %d sites" % (iv.tolist(), n_base)))
                        break
        # moves of one chain use that chain's temperature: group by identity of the genotype buffer
        if not problems:
            per_step = {}
            mut_events = [e for e in log if e[0] == "mutation"]
            if len(mut_events) != case["steps"] * n_t:
                problems.append(Problem("orchestration:mutation_count", "%d mutation sweeps for %d steps x %d chains" % (len(mut_events), case["steps"], n_t)))
            else:
                for k, e in enumerate(mut_events):
                    if e[1] != temps[k % n_t]:
                        problems.append(Problem("orchestration:temperature", "sweep %d (chain %d) ran at inverse temperature %r, ladder %s" % (k, k % n_t, e[1], temps.tolist())))
                        break
                # all moves between two mutation sweeps act on the same chain buffer and temperature
                cur = None
                for e in log:
                    if e[0] == "mutation":
                        cur = e
                    elif e[0].startswith("structural"):
                        if e[1] != cur[1] or e[4] is not cur[4]:
                            problems.append(Problem("orchestration:structural_chain", "structural move used temperature %r / another buffer while chain temperature is %r" % (e[1], cur[1])))
                            break
                    elif e[0] == "swap":
                        if e[1] != cur[1]:
                            problems.append(Problem("orchestration:swap_chain", "exchange for chain at %r ran with temp_i %r" % (cur[1], e[1])))
                            break
        # trace
        if not problems:
            exp_chains = n_t if case["heated"] else 1
            if gt.shape[:2] != (exp_chains, case["steps"]):
                problems.append(Problem("orchestration:trace_shape", "trace shape %s" % (gt.shape,)))
            else:
                for c in range(exp_chains):
                    for i in range(case["steps"]):
                        t = float(log_likelihood(R_arr, gt[c, i], read_counts=C_arr))
                        if abs(t - float(lt[c, i])) > 1e-9 * max(1.0, abs(t)):
                            problems.append(Problem("orchestration:trace_llk", "trace llk %r at chain %d step %d, recomputed %r" % (float(lt[c, i]), c, i, t)))
                            break
                    if problems:
                        break
    return problems


def replay(ctx, case):
    if case.get("kind") == "wiring":
        from . import wiring

        return wiring.check_wiring(ctx, case)
    if case.get("kind") == "orchestration":
        return check_orchestration(ctx, case)
    return check_instance(ctx, case)


def run(ctx):
    q = ctx.quick
    ctx.hyp("kernels", instance(120 if q else 600, 4 if q else 5, 3 if q else 4), check_instance, 60 if q else 200)
    ctx.hyp("orchestration", orchestration_case(), check_orchestration, 25 if q else 120)
    from . import wiring

    ctx.hyp("wiring", wiring.wiring_case("assemble"), wiring.check_wiring, 10 if q else 40)
