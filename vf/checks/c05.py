"""C05 — genotype priors are proper distributions and mutually consistent."""

import itertools
import math
from fractions import Fraction

import numpy as np
from hypothesis import strategies as st

from ..common import Problem, guard
from ..ref import models as R

PROPERTY = "C05"
RULE = (
    "exhaustive grid ploidy x n_alleles x F in {0,1/16..15/16,0.999} x frequency vectors {None, flat, dyadic-skewed, "
    "with a zero entry}: every unordered genotype (and every position for the conditional prior) is evaluated; plus "
    "hypothesis-drawn random frequency vectors / larger ploidy and assemble priors over all haplotypes of 1-3 SNVs; single "
    "genotypes (ploidy 1-12) in spaces of 100 to 3^20 haplotypes against a log-space reference (flat prior, call vs assemble); "
    "non-trivial = F>0 with non-flat frequencies, or a zero frequency entry, or an assemble space with >1 SNV; "
    "distinct by (function, ploidy, n_alleles, F, frequencies[, n_alleles vector])"
)
ASSUMPTIONS = [
    "reference: multinomial / Dirichlet-multinomial written with rising factorials (no gamma function), alpha_i=f_i(1-F)/F; Fractions for the sum-to-one check",
    "tolerance 1e-9 on log values (relative to max(1,|log p|)) and on sums",
    "conditional prior compared only where the held-constant alleles have positive frequency (otherwise the condition has probability zero)",
]
SHARDS_THOROUGH = 8

F_GRID = [0.0, 1e-4, 0.002, 0.005] + [k / 16 for k in range(1, 16)] + [0.999]


def ftol(F, ploidy):
    """lgamma of the summed dispersion (1-F)/F is large for tiny F: its rounding error bounds the attainable accuracy."""
    if F <= 0:
        return 1e-9
    A = (1 - F) / F
    return 1e-9 + 8e-15 * ploidy * abs(math.lgamma(ploidy + A))


def lclose(a, b, tol=1e-9):
    if a == b:
        return True
    if math.isinf(a) or math.isinf(b) or a != a or b != b:
        return False
    return abs(a - b) <= tol * max(1.0, abs(a), abs(b))


def freq_vectors(n):
    out = [("none", None), ("flat", [1.0 / n] * n)]
    if n >= 2:
        sk = [2.0 ** -(i + 1) for i in range(n)]
        sk[-1] *= 2
        out.append(("skewed", sk))
        z = [0.0] + [2.0 ** -(i + 1) for i in range(n - 1)]
        z[-1] *= 2 if n > 2 else 1
        if n == 2:
            z = [0.0, 1.0]
        out.append(("zero_first", z))
        if n >= 3:
            z2 = [0.5, 0.0] + [0.5 / (n - 2)] * (n - 2)
            out.append(("zero_mid", z2))
    return out


def check_space(ctx, ploidy, n_alleles, F, fname, freqs):
    """All genotypes of one (ploidy, n_alleles, F, frequencies) space."""
    from mchap.calling import prior as CP

    case = {"kind": "calling_space", "ploidy": ploidy, "n_alleles": n_alleles, "inbreeding": F, "frequencies": freqs}
    problems = []
    f_ref = freqs if freqs is not None else [1.0 / n_alleles] * n_alleles
    f_arr = None if freqs is None else np.array(freqs, dtype=np.float64)
    total = 0.0
    n_eval = 0
    with guard(problems, "calling_prior"):
        gens = list(R.vcf_order(ploidy, n_alleles))
        # reference values
        ref_p = [R.genotype_prior(g, f_ref, F) for g in gens]
        s_ref = math.fsum(ref_p)
        if abs(s_ref - 1.0) > 1e-9:
            raise AssertionError("reference prior does not sum to one: %r" % s_ref)
        ordered_ref = {g: p / R.perms(g) for g, p in zip(gens, ref_p)}
        for g, p_ref in zip(gens, ref_p):
            arr = np.array(g, dtype=np.int8)
            lp = float(CP.log_genotype_prior(arr, n_alleles, inbreeding=F, frequencies=f_arr))
            n_eval += 1
            total += math.exp(lp) if lp > -math.inf else 0.0
            if not lclose(lp, R.log_or_neginf(p_ref), ftol(F, ploidy)):
                problems.append(Problem("calling_prior:pointwise", "log_genotype_prior(%s, n=%d, F=%r, freq=%s)=%r reference=%r" % (list(g), n_alleles, F, freqs, lp, R.log_or_neginf(p_ref))))
                break
            # order of alleles must not matter
            if ploidy > 1 and len(set(g)) > 1:
                lp_r = float(CP.log_genotype_prior(arr[::-1].copy(), n_alleles, inbreeding=F, frequencies=f_arr))
                if not lclose(lp_r, lp):
                    problems.append(Problem("calling_prior:order", "reversed genotype %s gives %r vs %r" % (list(g), lp_r, lp)))
                    break
            # conditional of one allele given the others
            for k in range(ploidy):
                rest = g[:k] + g[k + 1:]
                if any(f_ref[a] == 0 for a in rest):
                    continue
                denom = 0.0
                for b in range(n_alleles):
                    gb = tuple(sorted(rest + (b,)))
                    denom += ordered_ref[gb]
                if denom <= 0:
                    continue
                expect = ordered_ref[g] / denom
                got = float(CP.log_genotype_allele_prior(arr, k, n_alleles, inbreeding=F, frequencies=f_arr))
                n_eval += 1
                if not lclose(got, R.log_or_neginf(expect), ftol(F, ploidy)):
                    problems.append(Problem("allele_prior:conditional", "log_genotype_allele_prior(%s, pos %d, n=%d, F=%r, freq=%s)=%r exact conditional=%r" % (list(g), k, n_alleles, F, freqs, got, R.log_or_neginf(expect))))
                    break
            else:
                continue
            break
        else:
            if abs(total - 1.0) > ftol(F, ploidy) * max(1, len(gens)) ** 0.5:
                problems.append(Problem("calling_prior:sum", "sum over %d genotypes = %r (ploidy %d, n=%d, F=%r, freq=%s)" % (len(gens), total, ploidy, n_alleles, F, freqs)))
    nt = (F > 0 and fname not in ("none", "flat")) or fname.startswith("zero")
    ctx.record_bulk(n_eval, 1 if nt else 0,
                    case if (ploidy, n_alleles, fname) == (3, 3, "skewed") and F == 0.25 else None,
                    {"calling_spaces": 1, "F>0": int(F > 0), "freq:" + fname: 1})
    ctx.check(case, problems)


def check_assemble(ctx, ploidy, n_alleles_vec, F):
    from mchap.assemble import prior as AP
    from mchap.calling import prior as CP
    from mchap import jitutils

    case = {"kind": "assemble_space", "ploidy": ploidy, "n_alleles": n_alleles_vec, "inbreeding": F}
    problems = []
    n_haps = 1
    for n in n_alleles_vec:
        n_haps *= n
    log_n = math.log(n_haps)
    flatf = np.full(n_haps, 1.0 / n_haps)
    total = 0.0
    n_eval = 0
    with guard(problems, "assemble_prior"):
        for g in R.vcf_order(ploidy, n_haps):
            # dosage in the format of get_haplotype_dosage: count at first copy, 0 at duplicates
            dosage = np.zeros(ploidy, dtype=np.int64)
            first = {}
            for i, a in enumerate(g):
                if a in first:
                    dosage[first[a]] += 1
                else:
                    first[a] = i
                    dosage[i] = 1
            lp = float(AP.log_genotype_prior(dosage, log_n, F))
            n_eval += 1
            total += math.exp(lp)
            arr = np.array(g, dtype=np.int64)
            lp_none = float(CP.log_genotype_prior(arr, n_haps, inbreeding=F, frequencies=None))
            lp_flat = float(CP.log_genotype_prior(arr, n_haps, inbreeding=F, frequencies=flatf))
            ref = R.log_or_neginf(R.genotype_prior(g, [1.0 / n_haps] * n_haps, F))
            if not (lclose(lp, ref, ftol(F, ploidy)) and lclose(lp, lp_none, ftol(F, ploidy)) and lclose(lp, lp_flat, ftol(F, ploidy))):
                problems.append(Problem("assemble_prior:consistency", "dosage %s N=%d F=%r: assemble=%r call(None)=%r call(flat)=%r reference=%r" % (dosage.tolist(), n_haps, F, lp, lp_none, lp_flat, ref)))
                break
            # compact dosage (zeros removed / order changed) must give the same value
            comp = np.array(sorted([d for d in dosage.tolist() if d > 0], reverse=True) , dtype=np.int64)
            lp_c = float(AP.log_genotype_prior(comp, log_n, F))
            if not lclose(lp_c, lp):
                problems.append(Problem("assemble_prior:dosage_format", "dosage %s vs %s: %r vs %r" % (dosage.tolist(), comp.tolist(), lp, lp_c)))
                break
            lperm = float(jitutils.ln_equivalent_permutations(dosage))
            if not lclose(lperm, math.log(R.perms(g))):
                problems.append(Problem("ln_equivalent_permutations", "dosage %s: %r vs log(%d)" % (dosage.tolist(), lperm, R.perms(g))))
                break
        else:
            if abs(total - 1.0) > ftol(F, ploidy) * 30:
                problems.append(Problem("assemble_prior:sum", "sum over all genotypes = %r (ploidy %d, n_alleles %s, F=%r)" % (total, ploidy, n_alleles_vec, F)))
    ctx.record_bulk(n_eval * 4, 1 if len(n_alleles_vec) > 1 else 0,
                    case if (ploidy == 3 and n_alleles_vec == [2, 3] and F == 0.25) else None,
                    {"assemble_spaces": 1})
    ctx.check(case, problems)


@st.composite
def random_space(draw, max_ploidy):
    ploidy = draw(st.integers(1, max_ploidy))
    n_alleles = draw(st.integers(1, 8))
    while math.comb(n_alleles + ploidy - 1, ploidy) > 4000:
        n_alleles -= 1
    F = draw(st.one_of(st.sampled_from(F_GRID), st.floats(1e-5, 0.998), st.floats(1e-5, 0.02)))
    w = [draw(st.integers(0, 16)) for _ in range(n_alleles)]
    if sum(w) == 0:
        w[draw(st.integers(0, n_alleles - 1))] = 1
    s = sum(w)
    freqs = [x / s for x in w]
    return {"kind": "calling_space", "ploidy": ploidy, "n_alleles": n_alleles, "inbreeding": F, "frequencies": freqs}


def check_random(ctx, case):
    sub = type(ctx)(ctx.prop, ctx.tier, ctx.seed)
    fname = "random_zero" if any(f == 0 for f in case["frequencies"]) else "random"
    check_space(sub, case["ploidy"], case["n_alleles"], case["inbreeding"], fname, case["frequencies"])
    nt = case["inbreeding"] > 0 or fname == "random_zero"
    ctx.record(case, nt, ["random_space", fname])
    ctx.evaluations += sub.evaluations
    return [Problem(s, v["message"]) for s, v in sub.violations.items()]


@st.composite
def large_space(draw):
    """Single genotypes in spaces far too large to enumerate (hundreds to millions of haplotypes, ploidy up to 12)."""
    ploidy = draw(st.integers(1, 12))
    n = draw(st.sampled_from([100, 127, 128, 129, 255, 256, 257, 1000, 2**11, 2**16, 10**6, 2**21, 3**20]))
    k = draw(st.integers(1, min(ploidy, 6)))
    distinct = sorted(draw(st.lists(st.sampled_from([0, 1, 2, n // 2, n - 2, n - 1]), min_size=k, max_size=k, unique=True)))
    g = sorted(distinct + [draw(st.sampled_from(distinct)) for _ in range(ploidy - len(distinct))])
    F = draw(st.sampled_from([0.0, 0.0, 1e-4, 0.005, 0.125, 0.5, 0.9375]))
    return {"kind": "large_space", "ploidy": ploidy, "n_haplotypes": n, "genotype": g, "inbreeding": F}


def check_large(ctx, case):
    from mchap.assemble import prior as AP
    from mchap.calling import prior as CP

    problems = []
    g, n, F, ploidy = case["genotype"], case["n_haplotypes"], case["inbreeding"], case["ploidy"]
    counts = {}
    for a in g:
        counts[a] = counts.get(a, 0) + 1
    # reference in log space: multinomial coefficient, rising factorials of the flat dispersion alpha = (1-F)/(F n)
    ref = math.log(math.factorial(ploidy)) - sum(math.log(math.factorial(c)) for c in counts.values())
    if F == 0:
        ref -= ploidy * math.log(n)
    else:
        alpha = (1 - F) / F / n
        for c in counts.values():
            ref += sum(math.log(alpha + k) for k in range(c))
        ref -= sum(math.log(n * alpha + k) for k in range(ploidy))
    ctx.record(case, n ** ploidy >= 2 ** 63, ["large_space"] + (["n^ploidy>=2^63"] if n ** ploidy >= 2 ** 63 else []))
    with guard(problems, "large_space"):
        arr = np.array(g, dtype=np.int64)
        lp_call = float(CP.log_genotype_prior(arr, n, inbreeding=F, frequencies=None))
        dosage = np.array(sorted(counts.values(), reverse=True), dtype=np.int64)
        lp_asm = float(AP.log_genotype_prior(dosage, math.log(n), F))
        tol = ftol(F, ploidy) * 10 + 1e-9
        if not lclose(lp_call, ref, tol):
            problems.append(Problem("large_space:call_prior", "log_genotype_prior(%s, unique_haplotypes=%d, F=%r) = %r, flat %s prior is %r" % (g, n, F, lp_call, "multinomial" if F == 0 else "Dirichlet-multinomial", ref)))
        if not lclose(lp_asm, ref, tol):
            problems.append(Problem("large_space:assemble_prior", "assemble log_genotype_prior(dosage %s, log(%d), F=%r) = %r, reference %r" % (dosage.tolist(), n, F, lp_asm, ref)))
        if ploidy > 1:
            # the conditional prior of one allele given the others is the ratio of the joint priors of ploidy and ploidy-1 copies
            i = len(g) - 1
            rest = g[:i]
            rc = {}
            for a in rest:
                rc[a] = rc.get(a, 0) + 1
            if F == 0:
                cond = -math.log(n)
            else:
                alpha = (1 - F) / F / n
                cond = math.log(alpha + rc.get(g[i], 0)) - math.log(n * alpha + ploidy - 1)
            lp_c = float(CP.log_genotype_allele_prior(arr, i, n, inbreeding=F, frequencies=None))
            if not lclose(lp_c, cond, tol):
                problems.append(Problem("large_space:allele_prior", "log_genotype_allele_prior(%s, position %d, unique_haplotypes=%d, F=%r) = %r, conditional is %r" % (g, i, n, F, lp_c, cond)))
    return problems


def replay(ctx, case):
    if case["kind"] == "large_space":
        return check_large(ctx, case)
    sub = type(ctx)(ctx.prop, ctx.tier, ctx.seed)
    if case["kind"] == "calling_space":
        check_space(sub, case["ploidy"], case["n_alleles"], case["inbreeding"], "replay", case["frequencies"])
    else:
        check_assemble(sub, case["ploidy"], case["n_alleles"], case["inbreeding"])
    return [Problem(s, v["message"]) for s, v in sub.violations.items()]


def run(ctx):
    quick = ctx.quick
    max_p, max_n = (4, 6) if quick else (6, 8)
    jobs = []
    for ploidy in range(1, max_p + 1):
        for n in range(1, max_n + 1):
            for F in F_GRID:
                for fname, fr in freq_vectors(n):
                    jobs.append((ploidy, n, F, fname, fr))
    for i, job in enumerate(jobs):
        if i % ctx.nshards == ctx.shard:
            check_space(ctx, *job)
    ajobs = []
    for ploidy in range(1, (4 if quick else 5) + 1):
        for vec in ([2], [3], [4], [2, 2], [2, 3], [3, 4], [2, 2, 2], [2, 3, 2], [4, 4], [2, 2, 2, 2]):
            n_h = int(np.prod(vec))
            if math.comb(n_h + ploidy - 1, ploidy) > (3000 if quick else 40000):
                continue
            for F in (0.0, 1e-4, 0.002, 0.005, 0.125, 0.5, 0.9375):
                ajobs.append((ploidy, list(vec), F))
    for i, job in enumerate(ajobs):
        if i % ctx.nshards == ctx.shard:
            check_assemble(ctx, *job)
    ctx.note("exhaustive_parts", "calling grid ploidy<=%d x alleles<=%d x %d F values x up to 5 frequency vectors (%d spaces); %d assemble spaces" % (max_p, max_n, len(F_GRID), len(jobs), len(ajobs)))
    ctx.exhaustive = False
    ctx.hyp("random_space", random_space(4 if quick else 8), check_random, 150 if quick else 600)
    ctx.hyp("large_space", large_space(), check_large, 400 if quick else 3000)
