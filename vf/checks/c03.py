"""C03 — call-exact reports the true normalised posterior; both code paths agree."""

import math

import numpy as np
from hypothesis import strategies as st

from ..common import Problem, guard
from ..gen import calling as GC
from ..ref import models as R

PROPERTY = "C03"
RULE = (
    "function level: hypothesis draws (1-6 known haplotypes, ploidy 1-5, frequencies flat/skewed incl. zero entries, F, 0-6 "
    "reads with counts up to 500 so that |llk| exercises the float32 path); the streaming path (posterior_mode) and the array "
    "path (genotype_likelihoods -> genotype_posteriors -> posterior_allele_frequencies / alternate_dosage_posteriors) are both "
    "compared with the reference posterior over ALL unordered genotypes in VCF order and with each other. CLI level: generated "
    "datasets are run through call-exact with several --report sets and the common sample fields compared. non-trivial = >=3 "
    "alleles, ploidy>=3 and posterior entropy>0 (function level) / a pair of runs differing in GP/GL (CLI); distinct by decoded case"
)
ASSUMPTIONS = [
    "reference posterior from vf/ref (pure python float64)",
    "streaming path tolerance 1e-9; array path is float32 by design: tolerance expm1(4*2^-23*max|llk+lprior|) relative on probabilities",
    "mode must be a maximiser up to that tolerance (ties admit any maximiser)",
    "alleles with zero prior frequency are kept by call-exact and must get zero posterior",
]


def f32_tol(logpi):
    scale = max([abs(x) for x in logpi if x > -math.inf] or [1.0])
    return math.expm1(4 * 2.0**-23 * scale) + 1e-6


def check_function(ctx, case):
    from mchap.calling import exact as CE
    from mchap.jitutils import index_as_genotype_alleles, natural_log_to_log10

    problems = []
    R_arr, C_arr, H, f = GC.arrays(case)
    ploidy = case["ploidy"]
    n = len(case["haplotypes"])
    F = case["inbreeding"]
    f_ref = case["frequencies"] if case["frequencies"] is not None else [1.0 / n] * n
    gens, llks, lpris, probs = R.posterior_table(case["reads"], case["counts"], case["haplotypes"], ploidy, f_ref, F)
    logpi = [a + b for a, b in zip(llks, lpris)]
    if any(p != p for p in probs):
        ctx.count("degenerate_all_zero_skipped")
        return problems
    entropy = -sum(p * math.log(p) for p in probs if p > 0)
    nontrivial = n >= 3 and ploidy >= 3 and entropy > 1e-6
    zero_f = any(x == 0 for x in f_ref)
    ctx.record(case, nontrivial, ["function"] + (["zero_frequency"] if zero_f else []) + (["no_reads"] if not case["reads"] else []) + (["deep"] if max(case["counts"] or [0]) > 50 else []))
    pmax = max(probs)
    sup = {}
    for g, p in zip(gens, probs):
        sup[frozenset(g)] = sup.get(frozenset(g), 0.0) + p
    exp_cnt = [0.0] * n
    exp_occ = [0.0] * n
    for g, p in zip(gens, probs):
        for a in set(g):
            exp_occ[a] += p
            exp_cnt[a] += p * g.count(a)
    index = {g: i for i, g in enumerate(gens)}

    def check_summary(label, alleles, gpm, spm, afp, acp, aop, tol):
        g = tuple(int(x) for x in alleles)
        if list(g) != sorted(g) or len(g) != ploidy or any(a < 0 or a >= n for a in g):
            problems.append(Problem(label + ":GT_form", "GT %s is not a sorted genotype of ploidy %d over %d alleles" % (list(g), ploidy, n)))
            return
        p_ref = probs[index[g]]
        if p_ref < pmax - tol * pmax - 1e-12:
            problems.append(Problem(label + ":GT_not_mode", "GT %s has posterior %r but %s has %r" % (list(g), p_ref, list(gens[probs.index(pmax)]), pmax)))
            return
        if abs(gpm - p_ref) > tol * p_ref + 1e-12:
            problems.append(Problem(label + ":GPM", "GPM %r, posterior of GT %s is %r" % (gpm, list(g), p_ref)))
        s_ref = sup[frozenset(g)]
        if abs(spm - s_ref) > tol * s_ref + 1e-12:
            problems.append(Problem(label + ":SPM", "SPM %r, total posterior of genotypes with allele set %s is %r" % (spm, sorted(set(g)), s_ref)))
        if not (gpm <= spm + 1e-9 and spm <= 1 + 1e-6):
            problems.append(Problem(label + ":GPM<=SPM<=1", "GPM %r SPM %r" % (gpm, spm)))
        if afp is not None:
            for a in range(n):
                if abs(float(afp[a]) - exp_cnt[a] / ploidy) > tol + 1e-9:
                    problems.append(Problem(label + ":AFP", "AFP[%d]=%r expected %r" % (a, float(afp[a]), exp_cnt[a] / ploidy)))
                    break
                if acp is not None and abs(float(acp[a]) - exp_cnt[a]) > ploidy * (tol + 1e-9):
                    problems.append(Problem(label + ":ACP", "ACP[%d]=%r expected %r" % (a, float(acp[a]), exp_cnt[a])))
                    break
                if abs(float(aop[a]) - exp_occ[a]) > tol + 1e-9:
                    problems.append(Problem(label + ":AOP", "AOP[%d]=%r expected %r" % (a, float(aop[a]), exp_occ[a])))
                    break
                if f_ref[a] == 0 and (float(afp[a]) != 0 or float(aop[a]) != 0):
                    problems.append(Problem(label + ":zero_prior_allele", "allele %d has zero prior but AFP %r AOP %r" % (a, float(afp[a]), float(aop[a]))))
                    break
            if abs(float(np.sum(afp)) - 1.0) > n * tol + 1e-9:
                problems.append(Problem(label + ":AFP_sum", "sum AFP = %r" % float(np.sum(afp))))
        if any(f_ref[a] == 0 for a in g):
            problems.append(Problem(label + ":GT_uses_zero_prior_allele", "GT %s uses an allele with zero prior" % (list(g),)))

    with guard(problems, "streaming"):
        res = CE.posterior_mode(R_arr, ploidy, H, read_counts=C_arr, inbreeding=F, frequencies=f,
                                return_support_prob=True, return_posterior_frequencies=True, return_posterior_occurrence=True)
        alleles_s, mode_llk, gpm_s, spm_s, afp_s, aop_s = res
        check_summary("streaming", alleles_s, float(gpm_s), float(spm_s), afp_s, afp_s * ploidy, aop_s, 1e-9)
        g = tuple(int(x) for x in alleles_s)
        if g in index and abs(float(mode_llk) - llks[index[g]]) > 1e-9 * max(1.0, abs(llks[index[g]])):
            problems.append(Problem("streaming:mode_llk", "mode llk %r vs %r" % (float(mode_llk), llks[index[g]])))

    with guard(problems, "array"):
        l32 = CE.genotype_likelihoods(R_arr, ploidy, H, read_counts=C_arr)
        post = CE.genotype_posteriors(l32, ploidy, n, inbreeding=F, frequencies=f)
        tol = f32_tol(logpi)
        if len(post) != len(gens) or len(l32) != len(gens):
            problems.append(Problem("array:length", "GP/GL length %d/%d, number of genotypes %d" % (len(post), len(l32), len(gens))))
            return problems
        for i in range(len(gens)):
            if abs(float(post[i]) - probs[i]) > tol * max(probs[i], 1e-3) + 1e-7:
                problems.append(Problem("array:GP", "GP[%d]=%r for genotype %s (VCF order), reference %r" % (i, float(post[i]), list(gens[i]), probs[i])))
                break
            if llks[i] > -math.inf and abs(float(l32[i]) - llks[i]) > 2 * 2.0**-23 * max(1.0, abs(llks[i])) + 1e-6:
                problems.append(Problem("array:GL", "log-likelihood[%d]=%r for genotype %s, reference %r" % (i, float(l32[i]), list(gens[i]), llks[i])))
                break
        gl10 = natural_log_to_log10(l32)
        for i in range(len(gens)):
            if llks[i] > -math.inf and abs(float(gl10[i]) - llks[i] / math.log(10)) > 3 * 2.0**-23 * max(1.0, abs(llks[i])) + 1e-6:
                problems.append(Problem("array:GL_log10", "GL[%d]=%r expected log10 likelihood %r" % (i, float(gl10[i]), llks[i] / math.log(10))))
                break
        idx = int(np.argmax(post))
        alleles_a = index_as_genotype_alleles(idx, ploidy)
        gpm_a = float(post[idx])
        _, sp = CE.alternate_dosage_posteriors(alleles_a, post)
        spm_a = float(sp.sum())
        afp_a, acp_a, aop_a = CE.posterior_allele_frequencies(post, ploidy, n)
        check_summary("array", alleles_a, gpm_a, spm_a, afp_a, acp_a, aop_a, tol)
        if abs(float(np.sum(acp_a)) - ploidy) > ploidy * (n * tol + 1e-6):
            problems.append(Problem("array:ACP_sum", "sum ACP = %r, ploidy %d" % (float(np.sum(acp_a)), ploidy)))
        # paths agree
        if not problems:
            srt = sorted(logpi, reverse=True)
            gap = srt[0] - srt[1] if len(srt) > 1 else math.inf
            scale = max([abs(x) for x in logpi if x > -math.inf] or [1.0])
            if gap > 4 * 2.0**-23 * scale + 1e-6:
                if tuple(int(x) for x in alleles_a) != tuple(int(x) for x in alleles_s):
                    problems.append(Problem("paths:GT", "streaming GT %s, array GT %s (log-joint gap %r)" % (list(alleles_s), list(alleles_a), gap)))
            else:
                ctx.count("near_tie_mode_not_compared")
            if abs(gpm_a - float(gpm_s)) > tol * max(float(gpm_s), 1e-3) + 1e-7 and tuple(int(x) for x in alleles_a) == tuple(int(x) for x in alleles_s):
                problems.append(Problem("paths:GPM", "streaming GPM %r array GPM %r" % (float(gpm_s), gpm_a)))
    return problems


@st.composite
def function_case(draw, quick):
    deep = draw(st.integers(0, 3)) == 0
    c = draw(GC.calling_instance(max_haps=5 if quick else 6, max_ploidy=4 if quick else 5, max_states=300 if quick else 800,
                                 allow_zero_freq=True, min_reads=0, max_reads=6, deep=deep))
    c["kind"] = "function"
    return c


@st.composite
def many_haplotypes_case(draw):
    """More than 128 known haplotypes (int8 haplotype tables, allele numbers beyond 127)."""
    import itertools

    n_base = 8
    n_h = draw(st.integers(129, 150))
    all_h = [list(h) for h in itertools.product([0, 1], repeat=n_base)]
    order = draw(st.permutations(range(256)))
    haps = [all_h[i] for i in order[:n_h]]
    n_reads = draw(st.integers(1, 4))
    # reads that support high-numbered haplotypes
    reads = []
    for _ in range(n_reads):
        h = haps[draw(st.integers(max(0, n_h - 15), n_h - 1))]
        p = draw(st.sampled_from([0.9, 0.99]))
        reads.append([[p if a == h[j] else (1 - p) / 3 for a in range(2)] for j in range(n_base)])
    return {"kind": "function", "n_alleles": [2] * n_base, "haplotypes": haps, "ploidy": draw(st.sampled_from([1, 2])), "frequencies": None,
            "inbreeding": draw(st.sampled_from([0.0, 0.25])), "reads": reads, "counts": [draw(st.integers(1, 6)) for _ in range(n_reads)]}


def replay(ctx, case):
    if case.get("kind") == "cli":
        from . import c03_cli

        return c03_cli.check_cli(ctx, case)
    return check_function(ctx, case)


def run(ctx):
    q = ctx.quick
    ctx.hyp("function", function_case(q), check_function, 400 if q else 3000)
    ctx.hyp("many_haplotypes", many_haplotypes_case(), check_function, 4 if q else 20)
    try:
        from . import c03_cli
    except ImportError:
        c03_cli = None
    if c03_cli is not None:
        c03_cli.run(ctx)
