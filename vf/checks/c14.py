"""C14 — posterior summaries are exact functionals of the retained trace."""

import itertools
import math
from collections import Counter

import numpy as np
from hypothesis import strategies as st

from ..common import Problem, guard
from ..ref import models as R

PROPERTY = "C14"
RULE = (
    "hypothesis draws traces (1-4 chains x 1-40 steps x ploidy 1-6 [x 1-5 SNVs]) whose steps are picked from a small "
    "pool of genotypes so that repeats occur, stored with an arbitrary row order per step (assemble) or as sorted allele "
    "vectors (call, and call-pedigree individual traces with mixed-ploidy -1 padding), a burn-in 0..steps-1 and an "
    "incongruence threshold; non-trivial = >=2 chains AND >=3 distinct genotypes AND a permuted duplicate of some genotype "
    "(assemble) / a repeated genotype (call); distinct by hash of the decoded case"
)
ASSUMPTIONS = [
    "reference: Counter of sorted tuples over retained steps; probabilities compared at 1e-12",
    "ties (equal probabilities) admit any maximiser; incongruence with tied chain modes is checked against the admissible set",
    "calling traces are generated sorted (producer invariant of the samplers, itself checked in sub-check 'producer_sorted')",
    "MCI=2 means the qualifying chain modes jointly contain more distinct alleles than the ploidy (code comment / 'putative CNV' in the header)",
]

TOL = 1e-12


def canon(g):
    """assemble genotype (rows) -> sorted tuple of tuples"""
    return tuple(sorted(tuple(int(x) for x in row) for row in g))


# ------------------------------------------------------------ strategies


@st.composite
def assemble_trace(draw):
    ploidy = draw(st.integers(1, 6))
    long_locus = draw(st.integers(0, 7)) == 0
    n_base = draw(st.integers(60, 140)) if long_locus else draw(st.integers(1, 5))
    n_chain = draw(st.integers(1, 4))
    n_step = draw(st.integers(1, 12 if long_locus else 40))
    n_hap_pool = draw(st.integers(1, 5))
    if long_locus:
        # haplotypes that differ only at a few sites anywhere along a long locus (first sites included)
        cols = [0, 1, 2, n_base // 2, n_base - 1]
        haps = []
        for _ in range(n_hap_pool):
            h = [0] * n_base
            for c in cols:
                h[c] = draw(st.integers(0, 1))
            haps.append(h)
    else:
        haps = [[draw(st.integers(0, 3)) for _ in range(n_base)] for _ in range(n_hap_pool)]
    n_pool = draw(st.integers(1, 5))
    pool = [[draw(st.sampled_from(haps)) for _ in range(ploidy)] for _ in range(n_pool)]
    # chains may favour different genotypes (so incongruence can happen)
    trace = []
    for c in range(n_chain):
        fav = draw(st.integers(0, n_pool - 1))
        steps = []
        for s in range(n_step):
            k = fav if draw(st.integers(0, 3)) > 0 else draw(st.integers(0, n_pool - 1))
            g = pool[k]
            perm = draw(st.permutations(range(ploidy))) if ploidy > 1 and draw(st.booleans()) else list(range(ploidy))
            steps.append([list(g[i]) for i in perm])
        trace.append(steps)
    burn = draw(st.integers(0, n_step - 1))
    thr = draw(st.sampled_from([0.6, 0.6, 0.5, 0.3, 0.75, 1.0, 0.0]))
    return {"kind": "assemble_trace", "trace": trace, "burn": burn, "threshold": thr}


@st.composite
def alleles_trace(draw):
    ploidy = draw(st.integers(1, 6))
    n_allele = draw(st.integers(1, 6))
    n_chain = draw(st.integers(1, 4))
    n_step = draw(st.integers(1, 40))
    n_pool = draw(st.integers(1, 5))
    pool = [sorted(draw(st.integers(0, n_allele - 1)) for _ in range(ploidy)) for _ in range(n_pool)]
    trace = []
    for c in range(n_chain):
        fav = draw(st.integers(0, n_pool - 1))
        trace.append([list(pool[fav if draw(st.integers(0, 3)) > 0 else draw(st.integers(0, n_pool - 1))]) for _ in range(n_step)])
    burn = draw(st.integers(0, n_step - 1))
    thr = draw(st.sampled_from([0.6, 0.6, 0.5, 0.3, 0.75, 1.0, 0.0]))
    return {"kind": "alleles_trace", "trace": trace, "n_allele": n_allele, "burn": burn, "threshold": thr, "perm_seed": draw(st.integers(0, 10**6))}


@st.composite
def pedigree_trace(draw):
    n_samples = draw(st.integers(1, 4))
    ploidies = [draw(st.sampled_from([2, 4, 6, 1, 3])) for _ in range(n_samples)]
    max_ploidy = max(ploidies)
    n_allele = draw(st.integers(1, 5))
    n_chain = draw(st.integers(1, 3))
    n_step = draw(st.integers(1, 25))
    pools = []
    for p in ploidies:
        pools.append([sorted(draw(st.integers(0, n_allele - 1)) for _ in range(p)) for _ in range(draw(st.integers(1, 4)))])
    trace = []
    for c in range(n_chain):
        steps = []
        for s in range(n_step):
            row = []
            for i, p in enumerate(ploidies):
                g = list(draw(st.sampled_from(pools[i])))
                row.append(g + [-1] * (max_ploidy - p))
            steps.append(row)
        trace.append(steps)
    burn = draw(st.integers(0, n_step - 1))
    return {"kind": "pedigree_trace", "trace": trace, "ploidies": ploidies, "n_allele": n_allele, "burn": burn}


# ------------------------------------------------------------ reference functionals


def empirical(retained):
    """retained: list of canonical genotypes -> dict genotype -> probability"""
    c = Counter(retained)
    n = len(retained)
    return {g: k / n for g, k in c.items()}


def support_probs(dist):
    out = {}
    for g, p in dist.items():
        key = frozenset(g)
        out[key] = out.get(key, 0.0) + p
    return out


def admissible_incongruence(chain_dists, threshold, ploidy, compare="support"):
    """Set of flags admissible given possible ties of per-chain modes.

    compare="support": chains are compared by the allele set of their mode support
    (GenotypeMultiTrace).  compare="genotype": by the most probable genotype within the
    mode support (GenotypeAllelesMultiTrace.mode(genotype_support=True)).  In both the
    chain takes part only if the support probability reaches the threshold.
    """
    per_chain = []
    for dist in chain_dists:
        sp = support_probs(dist)
        m = max(sp.values())
        cands = [k for k, v in sp.items() if abs(v - m) <= TOL]
        opts = set()
        for k in cands:
            if compare == "support":
                reps = [k]
            else:
                members = {g: p for g, p in dist.items() if frozenset(g) == k}
                pm = max(members.values())
                reps = [g for g, p in members.items() if abs(p - pm) <= TOL]
            for rep in reps:
                if abs(sp[k] - threshold) <= TOL:
                    opts.add(rep)
                    opts.add(None)  # boundary ambiguous
                elif sp[k] >= threshold:
                    opts.add(rep)
                else:
                    opts.add(None)
        per_chain.append(sorted(opts, key=lambda x: (x is None, sorted(x) if x is not None else [])))
    flags = set()
    n_combo = 1
    for o in per_chain:
        n_combo *= len(o)
    if n_combo > 512:
        return {0, 1, 2}
    for combo in itertools.product(*per_chain):
        modes = [k for k in combo if k is not None]
        if len(set(modes)) > 1:
            union = set()
            for k in modes:
                union |= set(k)
            flags.add(2 if len(union) > ploidy else 1)
        else:
            flags.add(0)
    return flags


def first_chain_allele_count_artifact(chain_dists, threshold, ploidy):
    """Known finding: GenotypeMultiTrace.replicate_incongruence compares the number of distinct
    alleles with the number of distinct alleles of the *first* qualifying chain instead of the
    ploidy.  True when (for some tie resolution) that rule yields 2 while the union is <= ploidy."""
    per_chain = []
    for dist in chain_dists:
        sp = support_probs(dist)
        m = max(sp.values())
        per_chain.append([k for k, v in sp.items() if abs(v - m) <= TOL and v >= threshold - TOL] or [None])
    n_combo = 1
    for o in per_chain:
        n_combo *= len(o)
    if n_combo > 512:
        return False
    for combo in itertools.product(*per_chain):
        modes = [k for k in combo if k is not None]
        if len(set(modes)) > 1:
            union = set()
            for k in modes:
                union |= set(k)
            if len(modes[0]) < len(union) <= ploidy:
                return True
    return False


def compare_dist(problems, label, got_pairs, expect):
    got = {}
    for g, p in got_pairs:
        if g in got:
            problems.append(Problem(label + ":duplicate_state", "genotype %s listed twice in posterior" % (g,)))
            return False
        got[g] = p
    if set(got) != set(expect):
        problems.append(Problem(label + ":support", "posterior support %s != empirical support %s" % (sorted(got), sorted(expect))))
        return False
    for g in expect:
        if abs(got[g] - expect[g]) > TOL:
            problems.append(Problem(label + ":probability", "P(%s)=%r, relative frequency in retained trace=%r" % (g, got[g], expect[g])))
            return False
    return True


# ------------------------------------------------------------ checks


def check_assemble(ctx, case):
    from mchap.assemble.classes import GenotypeMultiTrace

    problems = []
    trace = case["trace"]
    burn = case["burn"]
    n_chain, n_step = len(trace), len(trace[0])
    ploidy, n_base = len(trace[0][0]), len(trace[0][0][0])
    arr = np.array(trace, dtype=np.int8).reshape(n_chain, n_step, ploidy, n_base)
    llks = np.arange(n_chain * n_step, dtype=float).reshape(n_chain, n_step)
    all_canon = [[canon(g) for g in chain] for chain in trace]
    retained = [g for chain in all_canon for g in chain[burn:]]
    expect = empirical(retained)
    raw_forms = {}
    for chain in trace:
        for g in chain[burn:]:
            raw_forms.setdefault(canon(g), set()).add(tuple(tuple(r) for r in g))
    perm_dup = any(len(v) > 1 for v in raw_forms.values())
    nontrivial = n_chain >= 2 and len(expect) >= 3 and perm_dup
    ctx.record(case, nontrivial, ["assemble_trace"] + (["permuted_duplicate"] if perm_dup else []) + (["burn>0"] if burn else []))

    with guard(problems, "assemble_trace"):
        mt = GenotypeMultiTrace(arr, llks)
        burnt = mt.burn(burn)
        if burnt.genotypes.shape[:2] != (n_chain, n_step - burn) or burnt.llks.shape != (n_chain, n_step - burn):
            problems.append(Problem("assemble:burn_shape", "burn(%d) left shape %s from %s" % (burn, burnt.genotypes.shape, arr.shape)))
            return problems
        if not np.array_equal(burnt.llks, llks[:, burn:]):
            problems.append(Problem("assemble:burn_llks", "burn(%d) did not remove exactly the first %d llks of every chain" % (burn, burn)))
        # retained steps are the same multiset per chain
        for c in range(n_chain):
            kept = [canon(g) for g in burnt.genotypes[c]]
            if kept != all_canon[c][burn:]:
                problems.append(Problem("assemble:burn_content", "chain %d after burn(%d) holds different genotypes than steps %d.." % (c, burn, burn)))
                return problems
        post = burnt.posterior()
        pairs = [(canon(g), float(p)) for g, p in zip(post.genotypes, post.probabilities)]
        if not compare_dist(problems, "assemble:posterior", pairs, expect):
            return problems
        # row order independence: reverse rows of every step
        mt2 = GenotypeMultiTrace(np.ascontiguousarray(arr[:, :, ::-1, :]), llks).burn(burn).posterior()
        pairs2 = [(canon(g), float(p)) for g, p in zip(mt2.genotypes, mt2.probabilities)]
        if not compare_dist(problems, "assemble:row_order", pairs2, expect):
            return problems
        # mode
        g_mode, p_mode = post.mode()
        pmax = max(expect.values())
        if abs(float(p_mode) - pmax) > TOL or abs(expect.get(canon(g_mode), -1) - pmax) > TOL:
            problems.append(Problem("assemble:mode", "mode %s p=%r but maximum relative frequency is %r" % (canon(g_mode), float(p_mode), pmax)))
        # mode support
        sup = post.mode_genotype_support()
        sp = support_probs(expect)
        smax = max(sp.values())
        sup_keys = {frozenset(canon(g)) for g in sup.genotypes}
        if len(sup_keys) != 1:
            problems.append(Problem("assemble:support_mixed", "mode_genotype_support mixes supports %s" % sup_keys))
        else:
            key = next(iter(sup_keys))
            if abs(sp[key] - smax) > TOL:
                problems.append(Problem("assemble:support_not_max", "support %s has probability %r < max %r" % (sorted(key), sp[key], smax)))
            exp_members = {g: p for g, p in expect.items() if frozenset(g) == key}
            got_members = [(canon(g), float(p)) for g, p in zip(sup.genotypes, sup.probabilities)]
            compare_dist(problems, "assemble:support_members", got_members, exp_members)
            gm, pm = sup.mode_genotype()
            if abs(float(pm) - max(exp_members.values())) > TOL or abs(exp_members.get(canon(gm), -1) - float(pm)) > TOL:
                problems.append(Problem("assemble:support_mode", "support mode %s p=%r; members %s" % (canon(gm), float(pm), exp_members)))
            if abs(float(sup.probabilities.sum()) - sp[key]) > 1e-9:
                problems.append(Problem("assemble:SPM", "support probability %r vs %r" % (float(sup.probabilities.sum()), sp[key])))
        # allele frequencies
        for dosage in (False, True):
            haps, freqs, occ = post.allele_frequencies(dosage=dosage)
            exp_f, exp_o = {}, {}
            for g, p in expect.items():
                for h, d in Counter(g).items():
                    exp_f[h] = exp_f.get(h, 0.0) + p * d / (1 if dosage else ploidy)
                    exp_o[h] = exp_o.get(h, 0.0) + p
            got_h = [tuple(int(x) for x in h) for h in haps]
            if sorted(got_h) != sorted(exp_f) or len(set(got_h)) != len(got_h):
                problems.append(Problem("assemble:allele_set", "allele_frequencies haplotypes %s expected %s" % (sorted(got_h), sorted(exp_f))))
                break
            for h, f, o in zip(got_h, freqs, occ):
                if abs(float(f) - exp_f[h]) > 1e-9 or abs(float(o) - exp_o[h]) > 1e-9:
                    problems.append(Problem("assemble:allele_frequencies", "haplotype %s dosage=%s: freq %r (expected %r) occurrence %r (expected %r)" % (h, dosage, float(f), exp_f[h], float(o), exp_o[h])))
                    break
        # chain incongruence on the retained trace
        thr = case["threshold"]
        flag = int(burnt.replicate_incongruence(threshold=thr))
        chain_dists = [empirical(chain[burn:]) for chain in all_canon]
        adm = admissible_incongruence(chain_dists, thr, ploidy)
        if flag not in adm:
            sig = "assemble:incongruence"
            if flag == 2 and first_chain_allele_count_artifact(chain_dists, thr, ploidy):
                sig = "assemble:incongruence:cnv_flag_counts_against_first_chain_alleles"
            problems.append(Problem(sig, "replicate_incongruence(threshold=%r)=%d, admissible %s (ploidy %d)" % (thr, flag, sorted(adm), ploidy)))
    return problems


def check_alleles_obj(problems, label, mt, chains_canon, burn, n_allele, ploidy, thr):
    """Shared by calling traces and pedigree individual traces."""
    n_chain = len(chains_canon)
    burnt = mt.burn(burn)
    n_step = len(chains_canon[0])
    if burnt.genotypes.shape[:2] != (n_chain, n_step - burn):
        problems.append(Problem(label + ":burn_shape", "burn(%d) left shape %s" % (burn, burnt.genotypes.shape)))
        return
    for c in range(n_chain):
        kept = [tuple(int(x) for x in g) for g in burnt.genotypes[c]]
        if kept != chains_canon[c][burn:]:
            problems.append(Problem(label + ":burn_content", "chain %d after burn(%d) differs from steps %d.." % (c, burn, burn)))
            return
    retained = [g for chain in chains_canon for g in chain[burn:]]
    expect = empirical(retained)
    post = burnt.posterior()
    pairs = [(tuple(int(x) for x in g), float(p)) for g, p in zip(post.genotypes, post.probabilities)]
    if not compare_dist(problems, label + ":posterior", pairs, expect):
        return
    g_mode, p_mode = post.mode()
    pmax = max(expect.values())
    if abs(float(p_mode) - pmax) > TOL or abs(expect.get(tuple(int(x) for x in g_mode), -1) - pmax) > TOL:
        problems.append(Problem(label + ":mode", "mode %s p=%r, max %r" % (list(g_mode), float(p_mode), pmax)))
    gs, pg, ps = post.mode(genotype_support=True)
    sp = support_probs(expect)
    smax = max(sp.values())
    key = frozenset(int(x) for x in gs)
    if abs(sp.get(key, -1) - smax) > TOL or abs(float(ps) - smax) > 1e-9:
        problems.append(Problem(label + ":SPM", "support mode %s with support probability %r, max support probability %r" % (list(gs), float(ps), smax)))
    else:
        members = {g: p for g, p in expect.items() if frozenset(g) == key}
        if abs(float(pg) - max(members.values())) > TOL or abs(members.get(tuple(int(x) for x in gs), -1) - float(pg)) > TOL:
            problems.append(Problem(label + ":support_mode", "best genotype of mode support %s p=%r; members %s" % (list(gs), float(pg), members)))
    # as_array
    arr = post.as_array(n_allele)
    n_g = R.n_genotypes(n_allele, ploidy)
    if len(arr) != n_g:
        problems.append(Problem(label + ":as_array_length", "as_array length %d expected %d" % (len(arr), n_g)))
    else:
        exp_arr = [0.0] * n_g
        for g, p in expect.items():
            exp_arr[R.genotype_rank(g)] = p
        if any(abs(float(a) - b) > TOL for a, b in zip(arr, exp_arr)):
            problems.append(Problem(label + ":as_array", "as_array=%s expected %s" % (np.round(arr, 6).tolist(), exp_arr)))
    # frequencies
    freq, cnt, occ = burnt.posterior_frequencies()
    exp_c = [0.0] * n_allele
    exp_o = [0.0] * n_allele
    for g, p in expect.items():
        for a, d in Counter(g).items():
            exp_c[a] += p * d
            exp_o[a] += p
    for a in range(n_allele):
        if abs(float(cnt[a]) - exp_c[a]) > 1e-9 or abs(float(freq[a]) - exp_c[a] / ploidy) > 1e-9 or abs(float(occ[a]) - exp_o[a]) > 1e-9:
            problems.append(Problem(label + ":posterior_frequencies", "allele %d: freq %r count %r occ %r; expected %r %r %r" % (a, float(freq[a]), float(cnt[a]), float(occ[a]), exp_c[a] / ploidy, exp_c[a], exp_o[a])))
            break
    if thr is not None:
        flag = int(burnt.replicate_incongruence(threshold=thr))
        chain_dists = [empirical(chain[burn:]) for chain in chains_canon]
        adm = admissible_incongruence(chain_dists, thr, ploidy, compare="genotype")
        if flag not in adm:
            problems.append(Problem(label + ":incongruence", "replicate_incongruence(threshold=%r)=%d, admissible %s" % (thr, flag, sorted(adm))))


def check_alleles(ctx, case):
    from mchap.calling.classes import GenotypeAllelesMultiTrace

    problems = []
    trace = case["trace"]
    n_chain, n_step, ploidy = len(trace), len(trace[0]), len(trace[0][0])
    arr = np.array(trace, dtype=np.int8).reshape(n_chain, n_step, ploidy)
    llks = np.zeros((n_chain, n_step))
    chains = [[tuple(g) for g in chain] for chain in trace]
    retained = [g for chain in chains for g in chain[case["burn"]:]]
    distinct = len(set(retained))
    ctx.record(case, n_chain >= 2 and distinct >= 3 and len(retained) > distinct, ["alleles_trace"])
    with guard(problems, "alleles_trace"):
        mt = GenotypeAllelesMultiTrace(arr, llks, case["n_allele"])
        check_alleles_obj(problems, "call", mt, chains, case["burn"], case["n_allele"], ploidy, case["threshold"])
        # allele frequencies / counts / occurrence must not depend on the order in which alleles are stored in a step
        if not problems and ploidy > 1:
            rs = np.random.RandomState(case.get("perm_seed", 0))
            shuffled = arr.copy()
            for c in range(n_chain):
                for i in range(n_step):
                    shuffled[c, i] = shuffled[c, i][rs.permutation(ploidy)]
            f0 = mt.burn(case["burn"]).posterior_frequencies()
            f1 = GenotypeAllelesMultiTrace(shuffled, llks, case["n_allele"]).burn(case["burn"]).posterior_frequencies()
            for name, a, b in zip(("frequency", "count", "occurrence"), f0, f1):
                if not np.allclose(a, b, atol=1e-12):
                    problems.append(Problem("call:posterior_frequencies:storage_order", "allele %s changes when the alleles of each step are stored in another order: %s vs %s" % (name, np.round(a, 6).tolist(), np.round(b, 6).tolist())))
                    break
    return problems


def check_pedigree(ctx, case):
    from mchap.pedigree.classes import PedigreeAllelesMultiTrace

    problems = []
    trace = case["trace"]
    ploidies = case["ploidies"]
    n_chain, n_step, n_samples = len(trace), len(trace[0]), len(ploidies)
    max_ploidy = max(ploidies)
    arr = np.array(trace, dtype=np.int16).reshape(n_chain, n_step, n_samples, max_ploidy)
    mixed = len(set(ploidies)) > 1
    ctx.record(case, n_chain >= 2 and mixed and n_step >= 3, ["pedigree_trace"] + (["mixed_ploidy"] if mixed else []))
    with guard(problems, "pedigree_trace"):
        mt = PedigreeAllelesMultiTrace(arr, n_allele=case["n_allele"])
        burnt = mt.burn(case["burn"])
        if burnt.genotypes.shape != (n_chain, n_step - case["burn"], n_samples, max_ploidy):
            problems.append(Problem("pedigree:burn_shape", "shape %s" % (burnt.genotypes.shape,)))
            return problems
        for i, p in enumerate(ploidies):
            ind = burnt.individual(i)
            if ind.genotypes.shape[-1] != p:
                problems.append(Problem("pedigree:individual_ploidy", "individual %d ploidy %d extracted with %d alleles" % (i, p, ind.genotypes.shape[-1])))
                continue
            chains = [[tuple(step[i][:p]) for step in chain[case["burn"]:]] for chain in trace]
            check_alleles_obj(problems, "pedigree_individual", ind, chains, 0, case["n_allele"], p, None)
    return problems


def check_producer_sorted(ctx, case):
    """Producer invariant: traces of the call sampler hold sorted allele vectors."""
    from mchap.calling.classes import CallingMCMC
    from ..gen import reads as G

    problems = []
    n_alleles = case["n_alleles"]
    haps = np.array(case["haplotypes"], dtype=np.int8)
    R_arr = G.reads_array(case["reads"], len(n_alleles), max(n_alleles))
    cnt = np.array(case["counts"], dtype=np.int64)
    ctx.record(case, len(case["haplotypes"]) >= 3 and case["ploidy"] >= 2, ["producer_sorted"])
    with guard(problems, "producer_sorted"):
        for step_type in ("Gibbs", "Metropolis-Hastings"):
            model = CallingMCMC(ploidy=case["ploidy"], haplotypes=haps, inbreeding=case["inbreeding"], steps=30, chains=2,
                                random_seed=case["seed"], step_type=step_type)
            tr = model.fit(R_arr, cnt)
            g = tr.genotypes
            if not np.all(np.diff(g.astype(int), axis=-1) >= 0):
                problems.append(Problem("call:trace_not_sorted", "CallingMCMC(%s) trace has an unsorted genotype" % step_type))
    return problems


@st.composite
def producer_case(draw):
    from ..gen import reads as G

    n_alleles = draw(G.n_alleles_vector(1, 3, 3))
    n_h = draw(st.integers(1, 5))
    haps = list({tuple(draw(st.integers(0, n - 1)) for n in n_alleles) for _ in range(n_h)})
    haps = [list(h) for h in sorted(haps)]
    reads, counts = draw(G.read_set(n_alleles, min_reads=1, max_reads=5, counts=True))
    return {"kind": "producer", "n_alleles": n_alleles, "haplotypes": haps, "reads": reads, "counts": counts,
            "ploidy": draw(st.integers(1, 5)), "inbreeding": draw(G.inbreeding), "seed": draw(st.integers(0, 2**31 - 1))}


def replay(ctx, case):
    kind = case["kind"]
    if kind == "assemble_trace":
        return check_assemble(ctx, case)
    if kind == "alleles_trace":
        return check_alleles(ctx, case)
    if kind == "pedigree_trace":
        return check_pedigree(ctx, case)
    if kind == "producer":
        return check_producer_sorted(ctx, case)
    return []


def run(ctx):
    q = ctx.quick
    ctx.hyp("assemble_trace", assemble_trace(), check_assemble, 700 if q else 4000)
    ctx.hyp("alleles_trace", alleles_trace(), check_alleles, 900 if q else 5000)
    ctx.hyp("pedigree_trace", pedigree_trace(), check_pedigree, 400 if q else 2000)
    ctx.hyp("producer_sorted", producer_case(), check_producer_sorted, 40 if q else 150)
