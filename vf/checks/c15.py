"""C15 — each iteration sweeps every site once; intervals partition; fixed sites restored."""

import math

import numpy as np
from hypothesis import strategies as st

from ..common import Problem, guard
from ..gen import reads as G
from ..ref import models as R

PROPERTY = "C15"
RULE = (
    "hypothesis draws (ploidy 1-8, n_base 1-300 biased to 120-140 and >127, n_alleles 2-4) for the sweep recorder and the "
    "jitted all-sites-flip witness, (breaks,n<=400) for random_breaks, and read sets with strongly/weakly homozygous sites "
    "+ thresholds (incl. values equal to a realised single-SNV probability) for the fixed-site logic; non-trivial = "
    "n_base>127 (sweep), breaks>=1 (intervals), >=1 fixed and >=1 free column (fixed sites); distinct by decoded case"
)
ASSUMPTIONS = [
    "witness: one biallelic read with p(0)=0.4,p(1)=0.6 at every site makes every 0->1 flip certain (MH ratio>1 with a single alternative), so after one jitted sweep from the all-zero genotype every cell is 1 iff every (h,j) was attempted",
    "single-SNV homozygosity posterior recomputed with the pure-python reference (likelihood x multinomial/Dirichlet-multinomial prior over the SNV's alleles); |p-threshold|<1e-9 is skipped as boundary-ambiguous",
    "--mcmc-fix-homozygous help text: fixed when probability >= threshold",
]


# ---------------------------------------------------------------- sweep


@st.composite
def sweep_case(draw):
    ploidy = draw(st.integers(1, 8))
    n_base = draw(st.one_of(st.integers(1, 40), st.integers(120, 140), st.integers(128, 300)))
    if ploidy * n_base > 1600:
        ploidy = max(1, 1600 // n_base)
    n_alleles = [draw(st.integers(2, 4)) for _ in range(min(n_base, 6))]
    n_alleles = (n_alleles * (n_base // len(n_alleles) + 1))[:n_base]
    return {"kind": "sweep", "ploidy": ploidy, "n_base": n_base, "n_alleles": n_alleles, "seed": draw(st.integers(0, 2**31 - 1))}


def check_sweep(ctx, case):
    from mchap.assemble import mutation
    from mchap import jitutils

    problems = []
    ploidy, n_base = case["ploidy"], case["n_base"]
    n_alleles = np.array(case["n_alleles"], dtype=np.int8)
    ctx.record(case, n_base > 127, ["sweep"] + (["n_base>127"] if n_base > 127 else []))

    # (1) recorder on the python version of the sweep
    calls = []

    def recorder(genotype, reads, llk, h, j, n_alleles, log_unique_haplotypes, inbreeding=0, temp=1, read_counts=None, cache=None):
        calls.append((int(h), int(j), int(n_alleles)))
        return llk, cache

    orig = mutation.base_step
    genotype = np.zeros((ploidy, n_base), dtype=np.int8)
    reads = np.full((1, n_base, 4), 0.25)
    with guard(problems, "sweep_recorder"):
        import warnings

        try:
            mutation.base_step = recorder
            np.random.seed(case["seed"] % (2**32))
            with warnings.catch_warnings():
                warnings.simplefilter("ignore")
                mutation.compound_step.py_func(genotype, reads, 0.0, n_alleles, 1.0)
        finally:
            mutation.base_step = orig
        expect = sorted((h, j, int(n_alleles[j])) for h in range(ploidy) for j in range(n_base))
        got = sorted(calls)
        if got != expect:
            missing = sorted(set(expect) - set(got))[:5]
            extra = sorted(set(got) - set(expect))[:5]
            dup = len(got) - len(set(got))
            problems.append(Problem("sweep:pairs", "sweep over ploidy %d x %d sites attempted %d sub-steps: missing e.g. %s, unexpected e.g. %s, %d repeated" % (ploidy, n_base, len(got), missing, extra, dup)))
        elif n_base * ploidy > 3 and [c[:2] for c in calls] == [e[:2] for e in sorted(expect)]:
            ctx.count("sweep_in_index_order")

    if problems:
        return problems
    # (2) jitted witness
    with guard(problems, "sweep_witness"):
        bi = np.zeros((1, n_base, 2), dtype=np.float64)
        bi[0, :, 0] = 0.4
        bi[0, :, 1] = 0.6
        cnt = np.array([3], dtype=np.int64)
        g = np.zeros((ploidy, n_base), dtype=np.int8)
        from mchap.assemble.likelihood import log_likelihood

        llk = float(log_likelihood(bi, g, read_counts=cnt))
        jitutils.seed_numba(case["seed"] % (2**32))
        na2 = np.full(n_base, 2, dtype=np.int8)
        llk2, _ = mutation.compound_step(g, bi, llk, na2, n_base * math.log(2.0), 0.0, 1.0, cnt, None)
        if not np.all(g == 1):
            unvisited = np.argwhere(g != 1)
            problems.append(Problem("sweep:witness", "after one jitted sweep %d of %d (haplotype,site) cells were never mutated, e.g. %s" % (len(unvisited), g.size, unvisited[:4].tolist())))
        else:
            exp_llk = float(log_likelihood(bi, g, read_counts=cnt))
            if abs(float(llk2) - exp_llk) > 1e-9 * max(1.0, abs(exp_llk)):
                problems.append(Problem("sweep:witness_llk", "carried llk %r != recomputed %r" % (float(llk2), exp_llk)))
    return problems


# ---------------------------------------------------------------- breaks


@st.composite
def breaks_case(draw):
    n = draw(st.one_of(st.integers(1, 12), st.integers(1, 400)))
    breaks = draw(st.one_of(st.integers(0, min(n - 1, 6)), st.integers(0, n - 1), st.just(n - 1)))
    return {"kind": "breaks", "n": n, "breaks": breaks, "seed": draw(st.integers(0, 2**31 - 1))}


def check_breaks(ctx, case):
    from mchap.assemble import structural
    from mchap import jitutils

    problems = []
    n, breaks = case["n"], case["breaks"]
    ctx.record(case, breaks >= 1, ["breaks", "breaks=n-1"] if breaks == n - 1 else ["breaks"])
    with guard(problems, "random_breaks"):
        jitutils.seed_numba(case["seed"] % (2**32))
        iv = structural.random_breaks(breaks, n)
        iv = np.asarray(iv)
        ok = iv.shape == (breaks + 1, 2) and iv[0, 0] == 0 and iv[-1, 1] == n and np.all(iv[:, 1] > iv[:, 0]) and np.all(iv[1:, 0] == iv[:-1, 1])
        if not ok:
            problems.append(Problem("random_breaks:partition", "random_breaks(%d,%d) = %s is not a partition of [0,%d) into %d contiguous non-empty intervals" % (breaks, n, iv.tolist(), n, breaks + 1)))
    return problems


# ---------------------------------------------------------------- fixed sites


def snv_hom_posteriors(reads, counts, j, n, ploidy, F):
    """P(homozygous a at SNV j) for each allele a, independent single-SNV model."""
    col = [[r[j]] for r in reads]
    gens = list(R.vcf_order(ploidy, n))
    logs = []
    for g in gens:
        llk = R.log_likelihood(col, [[a] for a in g], counts)
        lp = R.log_or_neginf(R.genotype_prior(g, [1.0 / n] * n, F))
        logs.append(llk + lp)
    m = max(logs)
    w = [math.exp(x - m) if x > -math.inf else 0.0 for x in logs]
    s = math.fsum(w)
    out = []
    for a in range(n):
        out.append(w[gens.index(tuple([a] * ploidy))] / s)
    return out


@st.composite
def fixed_case(draw):
    ploidy = draw(st.integers(1, 4))
    n_base = draw(st.integers(1, 6))
    n_alleles = [draw(st.integers(2, 3)) for _ in range(n_base)]
    max_allele = max(n_alleles)
    n_reads = draw(st.integers(0, 8))
    # per site: strongly homozygous (all reads agree, high p), weak, or heterozygous
    modes = [draw(st.sampled_from(["hom", "hom", "weak", "het"])) for _ in range(n_base)]
    hom_allele = [draw(st.integers(0, n - 1)) for n in n_alleles]
    reads = []
    for r in range(n_reads):
        read = []
        for j in range(n_base):
            if draw(st.integers(0, 7)) == 0:
                read.append([None] * max_allele)
                continue
            if modes[j] == "hom":
                a, p = hom_allele[j], draw(st.sampled_from([0.99, 0.999]))
            elif modes[j] == "weak":
                a, p = hom_allele[j], draw(st.sampled_from([0.6, 0.7, 0.8]))
            else:
                a, p = draw(st.integers(0, n_alleles[j] - 1)), draw(st.sampled_from([0.9, 0.99]))
            e = (1 - p) / 3
            cell = [p if i == a else e for i in range(max_allele)]
            for i in range(n_alleles[j], max_allele):
                cell[i] = 0.0
            read.append(cell)
        reads.append(read)
    counts = [draw(st.integers(1, 5)) for _ in range(n_reads)] if draw(st.booleans()) else None
    F = draw(G.inbreeding)
    thr_mode = draw(st.sampled_from(["grid", "realised", "realised_eps"]))
    thr = draw(st.sampled_from([0.999, 0.99, 0.9, 0.75, 0.6, 1.0]))
    return {"kind": "fixed", "ploidy": ploidy, "n_alleles": n_alleles, "reads": reads, "counts": counts, "inbreeding": F,
            "threshold": thr, "threshold_mode": thr_mode, "pick": draw(st.integers(0, 1000)), "eps_sign": draw(st.sampled_from([-1, 1])),
            "seed": draw(st.integers(0, 2**31 - 1))}


def check_fixed(ctx, case):
    from mchap.assemble import mcmc as M

    problems = []
    ploidy, n_alleles = case["ploidy"], case["n_alleles"]
    n_base = len(n_alleles)
    max_allele = max(n_alleles)
    reads, counts = case["reads"], case["counts"]
    F = case["inbreeding"]
    eff_reads = reads if reads else [[[None] * max_allele for _ in range(n_base)]]
    eff_counts = counts if reads else None
    hom = [snv_hom_posteriors(eff_reads, eff_counts, j, n_alleles[j], ploidy, F) for j in range(n_base)]
    R_arr = G.reads_array(reads, n_base, max_allele)
    C_arr = G.counts_array(counts, len(reads))
    # the code's own single-SNV posterior must agree with the reference (differential) ...
    H = None
    with guard(problems, "homozygosity_probabilities"):
        R0 = R_arr if len(reads) else np.full((1, n_base, max_allele), np.nan)
        H = M._homozygosity_probabilities(R0, np.array(n_alleles, dtype=np.int8), ploidy, inbreeding=F, read_counts=C_arr if len(reads) else None)
        for j in range(n_base):
            for a in range(n_alleles[j]):
                if abs(float(H[j, a]) - hom[j][a]) > 1e-9:
                    problems.append(Problem("fixed:homozygosity_posterior", "site %d allele %d: single-SNV homozygous posterior %r, reference %r" % (j, a, float(H[j, a]), hom[j][a])))
                    return problems
    if H is None:
        return problems
    thr = case["threshold"]
    # ... so that a threshold EXACTLY equal to a realised value decides '>=' vs '>'
    realised = sorted({float(H[j, a]) for j in range(n_base) for a in range(n_alleles[j]) if 0.5 < float(H[j, a]) < 1.0})
    on_boundary = False
    if case["threshold_mode"] != "grid" and realised:
        thr = realised[case["pick"] % len(realised)]
        if case["threshold_mode"] == "realised_eps":
            thr = min(1.0, max(0.500001, thr + case["eps_sign"] * 1e-6))
        else:
            on_boundary = True
    expect_fixed = {}
    ambiguous = False
    for j in range(n_base):
        for a, p in enumerate(hom[j]):
            if float(H[j, a]) == thr:
                expect_fixed[j] = a  # documented: fixed when probability >= threshold
            elif abs(p - thr) < 1e-9:
                ambiguous = True
            elif p >= thr:
                expect_fixed[j] = a
    n_fixed = len(expect_fixed)
    nontrivial = 0 < n_fixed < n_base
    ctx.record(case, nontrivial, ["fixed_sites"] + (["threshold_on_realised_value"] if on_boundary else []) + (["all_fixed"] if n_fixed == n_base else []) + (["none_fixed"] if n_fixed == 0 else []))
    if ambiguous:
        ctx.count("fixed:boundary_ambiguous_skipped")
        return problems

    seen = {}
    orig = M._denovo_assembler

    def wrapper(**kw):
        seen["n_base"] = kw["reads"].shape[1]
        seen["n_alleles"] = [int(x) for x in kw["n_alleles"]]
        seen["reads"] = kw["reads"].copy()
        return orig(**kw)

    with guard(problems, "fixed_sites"):
        model = M.DenovoMCMC(ploidy=ploidy, n_alleles=n_alleles, inbreeding=F, steps=12, chains=1, fix_homozygous=thr, random_seed=case["seed"] % (2**32))
        try:
            M._denovo_assembler = wrapper
            if len(reads) == 0:
                R_use = np.full((1, n_base, max_allele), np.nan)
                C_use = None
            else:
                R_use, C_use = R_arr, C_arr
            np.random.seed(case["seed"] % (2**32))
            from mchap.jitutils import seed_numba

            seed_numba(case["seed"] % (2**32))
            genotypes, llks = model._mcmc(R_use, C_use)
        finally:
            M._denovo_assembler = orig
        free = [j for j in range(n_base) if j not in expect_fixed]
        if n_fixed == n_base:
            if seen:
                problems.append(Problem("fixed:sampler_called_when_all_fixed", "all %d sites reach the threshold %r but the sampler was run on %d sites" % (n_base, thr, seen["n_base"])))
        else:
            if not seen:
                problems.append(Problem("fixed:sampler_not_called", "free sites %s exist (threshold %r, homozygosity %s) but no sampling happened" % (free, thr, hom)))
                return problems
            if seen["n_base"] != len(free) or seen["n_alleles"] != [n_alleles[j] for j in free]:
                problems.append(Problem("fixed:withheld_set", "sampler received %d sites with n_alleles %s; expected free sites %s (n_alleles %s); threshold %r, homozygosity posteriors %s" % (seen["n_base"], seen["n_alleles"], free, [n_alleles[j] for j in free], thr, [[round(p, 6) for p in row] for row in hom])))
                return problems
            if not np.array_equal(np.nan_to_num(seen["reads"], nan=-7.0), np.nan_to_num(R_use[:, free, :], nan=-7.0)):
                problems.append(Problem("fixed:reads_subset", "reads handed to the sampler are not the free columns %s" % free))
        if genotypes.shape != (12, ploidy, n_base):
            problems.append(Problem("fixed:trace_shape", "trace shape %s expected %s" % (genotypes.shape, (12, ploidy, n_base))))
            return problems
        for j, a in expect_fixed.items():
            if not np.all(genotypes[:, :, j] == a):
                problems.append(Problem("fixed:restored_allele", "fixed site %d should carry allele %d in every step; found values %s" % (j, a, np.unique(genotypes[:, :, j]).tolist())))
                break
        for j in free:
            if np.any(genotypes[:, :, j] >= n_alleles[j]) or np.any(genotypes[:, :, j] < 0):
                problems.append(Problem("fixed:free_column_range", "free site %d holds alleles outside 0..%d: %s (column misplaced?)" % (j, n_alleles[j] - 1, np.unique(genotypes[:, :, j]).tolist())))
                break
        # llk of the trace must be the likelihood of the full re-assembled genotype (fixed columns included where reads agree)
    return problems


def replay(ctx, case):
    return {"sweep": check_sweep, "breaks": check_breaks, "fixed": check_fixed}[case["kind"]](ctx, case)


def run(ctx):
    q = ctx.quick
    ctx.hyp("sweep", sweep_case(), check_sweep, 120 if q else 500)
    ctx.hyp("breaks", breaks_case(), check_breaks, 600 if q else 4000)
    ctx.hyp("fixed", fixed_case(), check_fixed, 250 if q else 1200)
