"""C09 — likelihood caches are transparent; carried likelihood always equals recomputed."""

import json
import math
import os
import subprocess
import sys

import numpy as np
from hypothesis import strategies as st

from .. import common
from ..common import Problem, guard
from ..gen import calling as GC
from ..gen import pedigree as GP
from ..gen import reads as G
from ..ref import models as R

PROPERTY = "C09"
RULE = (
    "four layers, all hypothesis-driven. (1) model-based arraymap: generated operation lists (set/get on keys from a small "
    "universe, tiny initial/max sizes so growth and overflow flushes are frequent) replayed against a dict model. (2) assemble "
    "sampler histories: generated sequences of jitted mutation / recombination / dosage sweeps and temperature exchanges on 1-3 "
    "chains sharing a caller-supplied cache of drawn size; after every move the carried llk must equal the recomputed one; plus "
    "_denovo_assembler traces and trajectory equality for cache thresholds -1/0/100. (3) monitored wrappers: short assemble / "
    "call / call-pedigree sampler runs executed as plain python (NUMBA_DISABLE_JIT=1 subprocess) with every cached-likelihood "
    "wrapper re-verified on every return, caches shrunk to force flushes. (4) caller-supplied pedigree cache audited after "
    "gibbs/MH/swap calls on pedigrees with unequal read counts; call sampler llk trace recomputed. non-trivial = history with "
    ">=1 flush and >=1 hit after it (1,2), >=1 exchange (2), a parental pair whose second parent has more distinct reads (4); "
    "distinct by decoded case"
)
ASSUMPTIONS = [
    "dict model for arraymap: get(k) is NaN or exactly the last value set for k, and equal to it when no flush happened since",
    "carried likelihoods compared with mchap's own log_likelihood at 1e-9 (the formula itself is C04's job) and with the pure-python reference for cache entries",
    "NUMBA_DISABLE_JIT runs execute the same source as plain python",
]

NAN = float("nan")


# ------------------------------------------------------------------ (1) arraymap model


@st.composite
def arraymap_ops(draw):
    array_length = draw(st.integers(1, 4))
    branches = draw(st.integers(2, 4))
    initial = draw(st.sampled_from([2, 3, 4, 8]))
    max_size = draw(st.sampled_from([4, 8, 16, 32, 64, 256]))
    n_keys = draw(st.integers(1, 12))
    keys = [[draw(st.integers(0, branches - 1)) for _ in range(array_length)] for _ in range(n_keys)]
    n_ops = draw(st.integers(1, 60))
    ops = []
    for i in range(n_ops):
        k = draw(st.integers(0, n_keys - 1))
        if draw(st.integers(0, 2)) == 0:
            ops.append(["get", k])
        else:
            ops.append(["set", k, float(draw(st.integers(-50, 50))) / 4])
    return {"kind": "arraymap", "array_length": array_length, "branches": branches, "initial": initial, "max_size": max(max_size, initial),
            "keys": keys, "ops": ops}


def check_arraymap(ctx, case):
    from mchap.assemble import arraymap

    problems = []
    with guard(problems, "arraymap"):
        amap = arraymap.new(case["array_length"], case["branches"], initial_size=case["initial"], max_size=case["max_size"])
        model = {}
        ever = {}
        flushes = 0
        hits_after_flush = 0
        grew = False
        for step, op in enumerate(case["ops"]):
            key = np.array(case["keys"][op[1]], dtype=np.int8)
            kt = tuple(case["keys"][op[1]])
            if op[0] == "set":
                size_before = len(amap[0])
                amap = arraymap.set(amap, key, op[2], empty_if_full=True)
                ever.setdefault(kt, []).append(op[2])
                if amap[3] == 1 and amap[4] == 0:
                    flushes += 1
                    model = {}
                else:
                    model[kt] = op[2]
                if len(amap[0]) > size_before or len(amap[1]) > size_before:
                    grew = True
                tree, values, alen, empty_node, empty_value, max_size = amap
                if not (1 <= empty_node < len(tree) and 0 <= empty_value < len(values) and len(tree) <= max(case["max_size"], case["initial"]) and len(values) <= max(case["max_size"], case["initial"])):
                    problems.append(Problem("arraymap:structure", "after op %d: empty_node %d / %d nodes, empty_value %d / %d values, max_size %d" % (step, empty_node, len(tree), empty_value, len(values), case["max_size"])))
                    break
            # every key must read back as NaN or its last stored value
            for kk in (kt,) if op[0] == "get" else list(model.keys())[:4] + [kt]:
                got = float(arraymap.get(amap, np.array(kk, dtype=np.int8)))
                if kk in model:
                    if got != model[kk]:
                        problems.append(Problem("arraymap:lost_or_wrong_value", "op %d: get(%s)=%r but the last value set (no flush since) is %r" % (step, list(kk), got, model[kk])))
                        break
                    if flushes:
                        hits_after_flush += 1
                else:
                    if got == got:
                        problems.append(Problem("arraymap:phantom_value", "op %d: get(%s)=%r for a key that was never set since the last flush (values ever set: %s)" % (step, list(kk), got, ever.get(kk))))
                        break
            if problems:
                break
        ctx.record(case, flushes >= 1 and hits_after_flush >= 1, ["arraymap"] + (["flush"] if flushes else []) + (["growth"] if grew else []))
    return problems


# ------------------------------------------------------------------ (2) assemble sampler histories


@st.composite
def history_case(draw):
    ploidy = draw(st.integers(1, 4))
    n_alleles = draw(G.n_alleles_vector(1, 4, 3))
    n_base = len(n_alleles)
    reads, counts = draw(G.read_set(n_alleles, min_reads=1, max_reads=5, counts=True))
    n_t = draw(st.integers(1, 3))
    temps = sorted(set(draw(st.lists(st.sampled_from([0.2, 0.5, 0.8]), min_size=n_t - 1, max_size=n_t - 1)))) + [1.0]
    n_ops = draw(st.integers(1, 25))
    ops = []
    for _ in range(n_ops):
        kind = draw(st.sampled_from(["mutation", "mutation", "recombination", "dosage", "swap"]))
        chain = draw(st.integers(0, len(temps) - 1))
        if kind in ("recombination", "dosage"):
            cuts = sorted(set(draw(st.lists(st.integers(1, max(1, n_base - 1)), max_size=3)))) if n_base > 1 else []
            pts = [0] + [c for c in cuts if 0 < c < n_base] + [n_base]
            intervals = [[pts[i], pts[i + 1]] for i in range(len(pts) - 1)]
            ops.append([kind, chain, intervals])
        else:
            ops.append([kind, chain])
    return {"kind": "history", "ploidy": ploidy, "n_alleles": n_alleles, "reads": reads, "counts": counts, "inbreeding": draw(G.inbreeding),
            "temperatures": temps, "ops": ops, "cache_initial": draw(st.sampled_from([2, 4, 8, 64])),
            "cache_max": draw(st.sampled_from([8, 16, 32, 128, 65536])), "seed": draw(st.integers(0, 2**31 - 1))}


def check_history(ctx, case):
    from mchap.assemble import arraymap, mutation, structural, tempering
    from mchap.assemble.likelihood import log_likelihood
    from mchap import jitutils

    problems = []
    n_alleles = case["n_alleles"]
    n_base = len(n_alleles)
    R_arr = G.reads_array(case["reads"], n_base, max(n_alleles))
    C_arr = G.counts_array(case["counts"], len(case["reads"]))
    na = np.array(n_alleles, dtype=np.int8)
    temps = case["temperatures"]
    F = case["inbreeding"]
    log_unique = float(np.log(np.array(n_alleles, dtype=np.float64)).sum())
    flushes = 0
    exchanges = 0
    with guard(problems, "history"):
        jitutils.seed_numba(case["seed"] % 2**32)
        cache = arraymap.new(case["ploidy"] * n_base, max(n_alleles), initial_size=case["cache_initial"], max_size=max(case["cache_max"], case["cache_initial"]))
        genotypes = [np.zeros((case["ploidy"], n_base), dtype=np.int8) for _ in temps]
        llks = [float(log_likelihood(R_arr, g, read_counts=C_arr)) for g in genotypes]
        filled = 0
        for step, op in enumerate(case["ops"]):
            t = op[1]
            before_values = int(cache[4])
            if op[0] == "mutation":
                llk, cache = mutation.compound_step(genotypes[t], R_arr, llks[t], na, log_unique, F, temps[t], C_arr, cache)
                llks[t] = float(llk)
            elif op[0] in ("recombination", "dosage"):
                iv = np.array(op[2], dtype=np.int64).reshape(-1, 2)
                llk, cache = structural.compound_step(genotypes[t], R_arr, llks[t], iv, log_unique, F, 0 if op[0] == "recombination" else 1, True, temps[t], C_arr, cache)
                llks[t] = float(llk)
            else:
                if t == 0:
                    continue
                li, lj = tempering.chain_swap_step(genotypes[t], llks[t], temps[t], genotypes[t - 1], llks[t - 1], temps[t - 1], log_unique, F)
                llks[t], llks[t - 1] = float(li), float(lj)
                exchanges += 1
            if int(cache[4]) < before_values:
                flushes += 1
            for c in range(len(temps)):
                true = float(log_likelihood(R_arr, genotypes[c], read_counts=C_arr))
                if abs(true - llks[c]) > 1e-9 * max(1.0, abs(true)):
                    problems.append(Problem("history:carried_llk", "after op %d (%s on chain %d, cache max %d): chain %d carries llk %r but its genotype %s has llk %r" % (step, op[0], t, case["cache_max"], c, llks[c], genotypes[c].tolist(), true)))
                    break
                if np.any(genotypes[c] < 0) or np.any(genotypes[c] >= na[None, :]):
                    problems.append(Problem("history:invalid_allele", "chain %d holds an allele outside the SNV's range: %s" % (c, genotypes[c].tolist())))
                    break
            if problems:
                break
        # everything left in the cache must be a true value
        if not problems:
            problems += audit_assemble_cache(cache, R_arr, C_arr, case["ploidy"], n_base, n_alleles)
    ctx.record(case, flushes >= 1 or exchanges >= 1, ["history"] + (["flush"] if flushes else []) + (["exchange"] if exchanges else []))
    return problems


def audit_assemble_cache(cache, R_arr, C_arr, ploidy, n_base, n_alleles):
    """Walk the array map and recompute every stored likelihood."""
    from mchap.assemble.likelihood import log_likelihood

    problems = []
    tree, values, alen, empty_node, empty_value, max_size = cache
    n_checked = 0

    def walk(node, prefix):
        nonlocal n_checked
        if problems or n_checked > 300:
            return
        if len(prefix) == alen:
            vi = tree[node, 0]
            if vi >= 0:
                g = np.array(prefix, dtype=np.int8).reshape(ploidy, n_base)
                true = float(log_likelihood(R_arr, g, read_counts=C_arr))
                n_checked += 1
                v = float(values[vi])
                if v == v and abs(v - true) > 1e-9 * max(1.0, abs(true)):
                    problems.append(Problem("cache:stored_value", "cache holds %r for genotype %s whose llk is %r" % (v, g.tolist(), true)))
            return
        for j in range(tree.shape[1]):
            nxt = tree[node, j]
            if nxt >= 0:
                walk(nxt, prefix + [j])

    walk(0, [])
    return problems


# ------------------------------------------------------------------ assembler trajectories


@st.composite
def trajectory_case(draw):
    ploidy = draw(st.integers(1, 4))
    n_alleles = draw(G.n_alleles_vector(1, 5, 3))
    reads, counts = draw(G.read_set(n_alleles, min_reads=1, max_reads=6, counts=True))
    n_t = draw(st.integers(1, 3))
    temps = sorted(set(draw(st.lists(st.sampled_from([0.2, 0.5, 0.8]), min_size=n_t - 1, max_size=n_t - 1)))) + [1.0]
    return {"kind": "trajectory", "ploidy": ploidy, "n_alleles": n_alleles, "reads": reads, "counts": counts, "inbreeding": draw(G.inbreeding),
            "temperatures": temps, "steps": draw(st.integers(2, 25)), "seed": draw(st.integers(0, 2**31 - 1))}


def check_trajectory(ctx, case):
    from mchap.assemble import mcmc as M
    from mchap.assemble.likelihood import log_likelihood
    from mchap import jitutils

    problems = []
    n_alleles = case["n_alleles"]
    n_base = len(n_alleles)
    R_arr = G.reads_array(case["reads"], n_base, max(n_alleles))
    C_arr = G.counts_array(case["counts"], len(case["reads"]))
    temps = np.array(case["temperatures"], dtype=np.float64)
    ctx.record(case, len(temps) >= 2, ["trajectory", "n_temps=%d" % len(temps)])
    with guard(problems, "trajectory"):
        runs = {}
        for thr in (-1, 0, 100):
            np.random.seed(case["seed"] % 2**32)
            jitutils.seed_numba(case["seed"] % 2**32)
            gt, lt = M._denovo_assembler(
                genotype=np.zeros((case["ploidy"], n_base), dtype=np.int8), inbreeding=case["inbreeding"], reads=R_arr, read_counts=C_arr,
                n_alleles=np.array(n_alleles, dtype=np.int8), steps=case["steps"], break_dist=M._point_beta_probabilities(n_base, 1.0, 3.0),
                recombination_step_probability=0.5, partial_dosage_step_probability=0.5, dosage_step_probability=1.0,
                temperatures=temps, return_heated_trace=True, llk_cache_threshold=thr)
            runs[thr] = (gt.copy(), lt.copy())
            for c in range(gt.shape[0]):
                for i in range(gt.shape[1]):
                    true = float(log_likelihood(R_arr, gt[c, i], read_counts=C_arr))
                    if abs(true - float(lt[c, i])) > 1e-9 * max(1.0, abs(true)):
                        problems.append(Problem("trajectory:trace_llk", "cache threshold %d: chain %d step %d records llk %r, recomputed %r" % (thr, c, i, float(lt[c, i]), true)))
                        break
                if problems:
                    break
            if problems:
                break
        if not problems:
            for thr in (0, 100):
                if not np.array_equal(runs[thr][0], runs[-1][0]):
                    problems.append(Problem("trajectory:cache_changes_trajectory", "same seed, llk_cache_threshold %d vs -1: sampled genotype trajectories differ" % thr))
                    break
                if not np.allclose(runs[thr][1], runs[-1][1], rtol=1e-12, atol=0):
                    problems.append(Problem("trajectory:cache_changes_llk_trace", "same seed, llk_cache_threshold %d vs -1: llk traces differ" % thr))
                    break
    return problems


# ------------------------------------------------------------------ (4) pedigree cache / call trace


@st.composite
def pedigree_cache_case(draw):
    from . import c18

    c = draw(c18.case_strategy(True))
    c["use_cache"] = True
    c["kind"] = "pedigree_cache"
    return c


def check_pedigree_cache(ctx, case):
    from . import c18

    sub = type(ctx)(ctx.prop, ctx.tier, ctx.seed)
    problems = c18.check_case(sub, case, c09_mode=True)
    more = "pair_second_parent_more_reads" in sub.classes
    ctx.record(case, more, ["pedigree_cache"] + (["pair_second_parent_more_reads"] if more else []))
    ctx.count("pedigree_cache_entries_checked", sub.classes.get("cache_entries_checked", 0))
    return problems


@st.composite
def call_trace_case(draw):
    c = draw(GC.calling_instance(max_haps=5, max_ploidy=4, max_states=2000))
    c["kind"] = "call_trace"
    c["seed"] = draw(st.integers(0, 2**31 - 1))
    c["step_type"] = draw(st.sampled_from(["Gibbs", "Metropolis-Hastings"]))
    return c


def check_call_trace(ctx, case):
    from mchap.calling.classes import CallingMCMC

    problems = []
    R_arr, C_arr, H, f = GC.arrays(case)
    ctx.record(case, len(case["haplotypes"]) >= 3 and case["ploidy"] >= 2, ["call_trace"])
    with guard(problems, "call_trace"):
        model = CallingMCMC(ploidy=case["ploidy"], haplotypes=H, frequencies=f, inbreeding=case["inbreeding"], steps=40, chains=2,
                            random_seed=case["seed"] % 2**32, step_type=case["step_type"])
        tr = model.fit(R_arr, C_arr)
        for c in range(tr.genotypes.shape[0]):
            for i in range(tr.genotypes.shape[1]):
                g = [int(x) for x in tr.genotypes[c, i]]
                true = R.log_likelihood(case["reads"], [case["haplotypes"][a] for a in g], case["counts"])
                if abs(true - float(tr.llks[c, i])) > 1e-9 * max(1.0, abs(true)):
                    problems.append(Problem("call_trace:llk", "%s chain %d step %d: trace llk %r for genotype %s, recomputed %r" % (case["step_type"], c, i, float(tr.llks[c, i]), g, true)))
                    return problems
    return problems


# ------------------------------------------------------------------ (3) monitored wrappers without jit


@st.composite
def nojit_case(draw):
    which = draw(st.sampled_from(["assemble", "call", "pedigree"]))
    if which == "assemble":
        ploidy = draw(st.integers(1, 3))
        n_alleles = draw(G.n_alleles_vector(1, 3, 3))
        reads, counts = draw(G.read_set(n_alleles, min_reads=1, max_reads=4, counts=True))
        return {"kind": "nojit", "which": which, "ploidy": ploidy, "n_alleles": n_alleles, "reads": reads, "counts": counts,
                "inbreeding": draw(G.inbreeding), "temperatures": draw(st.sampled_from([[1.0], [0.5, 1.0]])), "steps": draw(st.integers(2, 6)),
                "cache_max": draw(st.sampled_from([8, 16, 64, 65536])), "seed": draw(st.integers(0, 2**31 - 1))}
    if which == "call":
        c = draw(GC.calling_instance(max_haps=4, max_ploidy=3, max_states=200, max_reads=4))
        c.update({"kind": "nojit", "which": which, "steps": draw(st.integers(2, 8)), "seed": draw(st.integers(0, 2**31 - 1)),
                  "step_type": draw(st.sampled_from(["Gibbs", "Metropolis-Hastings"]))})
        return c
    c = draw(GP.pedigree(max_n=4, ploidies=(2, 4), max_haps=3, allow_extreme_error=False))
    c.update({"kind": "nojit", "which": which, "steps": draw(st.integers(2, 5)), "seed": draw(st.integers(0, 2**31 - 1)),
              "step_type": draw(st.sampled_from(["Gibbs", "Metropolis-Hastings"]))})
    return c


def run_nojit_batch(cases):
    """Executes cases in a NUMBA_DISABLE_JIT=1 subprocess; returns list of problem lists."""
    wd = common.work_dir()
    inp = os.path.join(wd, "nojit_in_%d.json" % os.getpid())
    out = os.path.join(wd, "nojit_out_%d.json" % os.getpid())
    with open(inp, "w") as fh:
        json.dump(common.jsonable(cases), fh)
    env = dict(os.environ)
    env["NUMBA_DISABLE_JIT"] = "1"
    env["PYTHONPATH"] = common.VERIF + os.pathsep + env.get("PYTHONPATH", "")
    p = subprocess.run([sys.executable, "-m", "vf.checks.c09_nojit", inp, out], cwd=common.VERIF, env=env, capture_output=True, text=True)
    if p.returncode != 0 or not os.path.exists(out):
        raise common.HarnessError("no-jit worker failed: %s" % (p.stderr[-3000:],))
    with open(out) as fh:
        res = json.load(fh)
    os.remove(inp)
    os.remove(out)
    return res


def check_nojit(ctx, case):
    res = run_nojit_batch([case])[0]
    ctx.record(case, res.get("served_from_cache", 0) > 0, ["nojit:" + case["which"]] + (["nojit:flush"] if res.get("flushes", 0) else []))
    ctx.count("nojit_wrapper_returns_verified", res.get("verified", 0))
    ctx.count("nojit_served_from_cache", res.get("served_from_cache", 0))
    return [Problem(s, m) for s, m in res["problems"]]


def replay(ctx, case):
    return {
        "arraymap": check_arraymap, "history": check_history, "trajectory": check_trajectory,
        "pedigree_cache": check_pedigree_cache, "pedigree_state": check_pedigree_cache, "call_trace": check_call_trace, "nojit": check_nojit,
    }[case["kind"]](ctx, case)


def run(ctx):
    q = ctx.quick
    ctx.hyp("arraymap", arraymap_ops(), check_arraymap, 400 if q else 3000)
    ctx.hyp("history", history_case(), check_history, 80 if q else 500)
    ctx.hyp("trajectory", trajectory_case(), check_trajectory, 15 if q else 80)
    ctx.hyp("pedigree_cache", pedigree_cache_case(), check_pedigree_cache, 100 if q else 600)
    ctx.hyp("call_trace", call_trace_case(), check_call_trace, 20 if q else 100)
    ctx.hyp("nojit", nojit_case(), check_nojit, 12 if q else 60, shrink=not q)
