"""C02 — the call sampler is stationary at the exact posterior computed by call-exact."""

import itertools
import math

import numpy as np
from hypothesis import strategies as st

from ..common import Problem, guard
from ..gen import calling as GC
from ..ref import models as R

PROPERTY = "C02"
RULE = (
    "hypothesis draws an instance (2-5 distinct known haplotypes over 1-3 SNVs, ploidy 1-4[5], frequencies None/flat/skewed>0, "
    "F in {0,dyadics}, 1-5 weighted reads incl. gaps); the check enumerates EVERY sorted genotype and EVERY allele position: "
    "Gibbs vector == exact full conditional, MH rows sum to 1 + lumped detailed balance, and for tiny instances the exact "
    "composition of compound_step over all visiting orders and choice paths satisfies pi K = pi. evaluations counts "
    "(state,position) vectors. non-trivial = a state with a repeated allele, >=3 alleles and (skewed frequencies or F>0); "
    "distinct by decoded instance"
)
ASSUMPTIONS = [
    "reference posterior over unordered genotypes from vf/ref (likelihood x multinomial/Dirichlet-multinomial prior)",
    "frequencies strictly positive (mchap call removes zero-frequency alleles before sampling)",
    "Gibbs vectors compared at 1e-9 absolute, detailed balance in log space at 1e-8, stationarity at 1e-9",
    "genotype_posteriors on float32 likelihoods (call-exact GP path) is compared with tolerance expm1(4*2^-23*max|llk+lprior|)",
]


def check_instance(ctx, case):
    from mchap.calling import mcmc as CM
    from mchap.calling import exact as CE

    problems = []
    R_arr, C_arr, H, f = GC.arrays(case)
    ploidy = case["ploidy"]
    n = len(case["haplotypes"])
    F = case["inbreeding"]
    f_ref = case["frequencies"] if case["frequencies"] is not None else [1.0 / n] * n
    gens, llks, lpris, probs = R.posterior_table(case["reads"], case["counts"], case["haplotypes"], ploidy, f_ref, F)
    index = {g: i for i, g in enumerate(gens)}
    logpi = [a + b for a, b in zip(llks, lpris)]
    # ordered-tuple target: pi(g)/perms(g)
    logord = [lp - math.log(R.perms(g)) for lp, g in zip(logpi, gens)]
    skew = case["frequencies"] is not None and len(set(case["frequencies"])) > 1
    nontrivial = ploidy >= 2 and n >= 3 and (skew or F > 0)
    classes = ["instance"] + (["skewed"] if skew else []) + (["F>0"] if F > 0 else []) + (["freq_none"] if f is None else [])
    n_vec = 0
    la = np.full(n, np.nan)
    lp_ = np.full(n, np.nan)
    pr = np.full(n, np.nan)

    with guard(problems, "gibbs"):
        for gi, g in enumerate(gens):
            for k in range(ploidy):
                arr = np.array(g, dtype=np.int32)
                CM.gibbs_options(arr, k, H, R_arr, C_arr, F, la, lp_, pr, f, None)
                n_vec += 1
                if tuple(int(x) for x in arr) != g:
                    problems.append(Problem("gibbs:state_not_restored", "gibbs_options left genotype %s as %s" % (list(g), arr.tolist())))
                    break
                rest = g[:k] + g[k + 1:]
                cand = [index[tuple(sorted(rest + (a,)))] for a in range(n)]
                m = max(logord[c] for c in cand)
                w = [math.exp(logord[c] - m) for c in cand]
                s = math.fsum(w)
                exp_v = [x / s for x in w]
                if any(abs(float(pr[a]) - exp_v[a]) > 1e-9 for a in range(n)):
                    problems.append(Problem("gibbs:full_conditional", "genotype %s position %d (F=%r, freq=%s): Gibbs vector %s, exact full conditional %s" % (list(g), k, F, case["frequencies"], [round(float(x), 10) for x in pr], [round(x, 10) for x in exp_v])))
                    break
                # llks served alongside must be the likelihood of each option
                for a in range(n):
                    if abs(float(la[a]) - llks[cand[a]]) > 1e-9 * max(1.0, abs(llks[cand[a]])):
                        problems.append(Problem("gibbs:llks_array", "llks_array[%d]=%r, likelihood of that option %r" % (a, float(la[a]), llks[cand[a]])))
                        break
            if problems:
                break

    bidir = 0
    if not problems:
        with guard(problems, "mh"):
            K = {}
            for gi, g in enumerate(gens):
                row = {}
                for k in range(ploidy):
                    arr = np.array(g, dtype=np.int32)
                    CM.mh_options(arr, k, H, R_arr, C_arr, F, la, lp_, pr, f, None)
                    n_vec += 1
                    if tuple(int(x) for x in arr) != g:
                        problems.append(Problem("mh:state_not_restored", "mh_options left genotype %s as %s" % (list(g), arr.tolist())))
                        break
                    v = [float(x) for x in pr]
                    if abs(math.fsum(v) - 1.0) > 1e-9 or min(v) < -1e-12:
                        problems.append(Problem("mh:row_sum", "genotype %s position %d: MH vector %s" % (list(g), k, v)))
                        break
                    rest = g[:k] + g[k + 1:]
                    for a in range(n):
                        key = index[tuple(sorted(rest + (a,)))]
                        row[key] = row.get(key, 0.0) + v[a] / ploidy
                if problems:
                    break
                K[gi] = row
            if not problems:
                for a, row in K.items():
                    for b, kab in row.items():
                        if b <= a:
                            continue
                        kba = K[b].get(a, 0.0)
                        if kab <= 1e-300 or kba <= 1e-300:
                            if max(kab, kba) > 1e-12 and logpi[a] > -math.inf and logpi[b] > -math.inf:
                                problems.append(Problem("mh:one_directional", "flow %s->%s %r reverse %r" % (gens[a], gens[b], kab, kba)))
                            continue
                        bidir += 1
                        d = (logpi[a] + math.log(kab)) - (logpi[b] + math.log(kba))
                        if abs(d) > 1e-8:
                            problems.append(Problem("mh:detailed_balance", "genotypes %s / %s (F=%r, freq=%s): pi(g)K(g,g')/pi(g')K(g',g)=exp(%r)" % (list(gens[a]), list(gens[b]), F, case["frequencies"], d)))
                            break
                    if problems:
                        break

    # exact composition of the compound step for tiny instances
    if not problems and n <= 3 and ploidy <= 3 and len(gens) <= 10:
        with guard(problems, "compound"):
            for step_type, name in ((0, "gibbs"), (1, "mh")):
                Kc = [[0.0] * len(gens) for _ in gens]
                orders = list(itertools.permutations(range(ploidy)))
                orig_choice, orig_shuffle = CM.random_choice, np.random.shuffle
                try:
                    for gi, g in enumerate(gens):
                        for order in orders:
                            for path in itertools.product(range(n), repeat=ploidy):
                                state = {"i": 0, "p": 1.0}

                                def fake_choice(probabilities, _s=state, _path=path):
                                    c = _path[_s["i"]]
                                    _s["p"] *= float(probabilities[c])
                                    _s["i"] += 1
                                    return c

                                def fake_shuffle(x, _o=order):
                                    x[:] = np.array(_o, dtype=x.dtype)

                                CM.random_choice = fake_choice
                                np.random.shuffle = fake_shuffle
                                arr = np.array(g, dtype=np.int32)
                                out_llk = CM.compound_step.py_func(arr, H, R_arr, C_arr, F, f, None, step_type)
                                new = tuple(int(x) for x in arr)
                                if list(new) != sorted(new):
                                    problems.append(Problem("compound:not_sorted", "compound_step returned unsorted genotype %s" % (new,)))
                                    break
                                if state["p"] > 0:
                                    Kc[gi][index[new]] += state["p"] / len(orders)
                                    t = llks[index[new]]
                                    if abs(float(out_llk) - t) > 1e-9 * max(1.0, abs(t)):
                                        problems.append(Problem("compound:returned_llk", "%s compound step returned llk %r for genotype %s whose llk is %r (order %s, path %s)" % (name, float(out_llk), new, t, order, path)))
                                        break
                            if problems:
                                break
                        if problems:
                            break
                finally:
                    CM.random_choice, np.random.shuffle = orig_choice, orig_shuffle
                if problems:
                    break
                n_vec += len(gens)
                for gi in range(len(gens)):
                    if abs(math.fsum(Kc[gi]) - 1.0) > 1e-9:
                        problems.append(Problem("compound:row_sum", "%s compound kernel row of %s sums to %r" % (name, gens[gi], math.fsum(Kc[gi]))))
                        break
                if problems:
                    break
                for b in range(len(gens)):
                    inflow = math.fsum(probs[a] * Kc[a][b] for a in range(len(gens)))
                    if abs(inflow - probs[b]) > 1e-9:
                        problems.append(Problem("compound:stationarity", "%s compound step: sum_g pi(g)K(g,%s)=%r but pi=%r (F=%r, freq=%s)" % (name, gens[b], inflow, probs[b], F, case["frequencies"])))
                        break
                if problems:
                    break
                ctx.count("compound_kernels_composed")

    # tie to call-exact's object
    if not problems:
        with guard(problems, "exact_crosscheck"):
            l32 = CE.genotype_likelihoods(R_arr, ploidy, H, read_counts=C_arr)
            post = CE.genotype_posteriors(l32, ploidy, n, inbreeding=F, frequencies=f)
            scale = max(abs(x) for x in logpi if x > -math.inf)
            tol = math.expm1(4 * 2.0**-23 * scale) + 1e-6
            for i in range(len(gens)):
                if abs(float(post[i]) - probs[i]) > tol * max(probs[i], 1e-3) + 1e-7:
                    problems.append(Problem("exact:posterior", "genotype_posteriors[%d]=%r for %s, reference %r (tol %g)" % (i, float(post[i]), gens[i], probs[i], tol)))
                    break
    ctx.record(case, nontrivial and bidir > 0, classes)
    ctx.evaluations += max(0, n_vec - 1)
    ctx.count("state_position_vectors", n_vec)
    ctx.count("mh_bidirectional_pairs", bidir)
    return problems


@st.composite
def instance(draw, quick):
    c = draw(GC.calling_instance(max_haps=5 if quick else 6, max_ploidy=4 if quick else 5, max_states=150 if quick else 500))
    c["kind"] = "calling_instance"
    return c


def replay(ctx, case):
    if case.get("kind") == "wiring":
        from . import wiring

        return wiring.check_wiring(ctx, case)
    return check_instance(ctx, case)


def run(ctx):
    q = ctx.quick
    ctx.hyp("kernels", instance(q), check_instance, 250 if q else 700)
    from . import wiring

    ctx.hyp("wiring", wiring.wiring_case("call"), wiring.check_wiring, 10 if q else 40)
