"""C13 — haplotype reporting threshold and unknown-allele semantics in assemble."""

import math
import os
import shutil
from fractions import Fraction

import numpy as np
from hypothesis import strategies as st

from .. import common
from ..common import Problem, guard
from ..gen import cli as CLI
from ..gen import dataset as D
from ..gen import pipeline as P
from ..ref import models as R
from ..ref import vcfparse as V

PROPERTY = "C13"
RULE = (
    "(a) function level: hypothesis draws 1-5 per-sample posterior distributions (1-4 genotypes each over a common pool of "
    "haplotypes, dyadic probabilities summing to 1, ploidy 1-4) and a dyadic threshold in [0,1] incl. 0, 1 and values equal to "
    "a realised occurrence probability; call_posterior_haplotypes, _genotype_as_alleles and _genotype_posterior_as_array are "
    "compared with exact rational arithmetic. (b) CLI level: generated datasets are assembled at threshold 0 (every sampled "
    "haplotype listed, full AOP table) and at drawn thresholds with --report AOP AFP GP and the same seed; ALT / REFMASKED / "
    "GT '.' / sum AFP / sum GP are derived from the threshold-0 table; at threshold 0 itself genotypes must be complete, allele "
    "sequences distinct and AFP sum to 1; one sample in three is made deep and homozygous (25-60 copies of one read) so that "
    "all its SNVs are fixed before sampling. non-trivial = >=2 samples with >=1 haplotype excluded "
    "and >=1 included (reference masked in some cases); distinct by decoded case"
)
ASSUMPTIONS = [
    "occurrence probability of a haplotype in a sample = sum of the probabilities of the genotypes containing it (exact Fractions for dyadic inputs)",
    "ties between equally weighted ALT alleles admit any order",
    "CLI comparison skips haplotypes whose printed threshold-0 AOP is within 0.0005 of the threshold (printing precision)",
]


@st.composite
def posteriors_case(draw):
    n_base = draw(st.integers(1, 3))
    n_pool = draw(st.integers(1, 5))
    pool = [[0] * n_base] if draw(st.booleans()) else []
    while len(pool) < n_pool:
        h = [draw(st.integers(0, 2)) for _ in range(n_base)]
        if h not in pool:
            pool.append(h)
        elif len(pool) >= 3 ** n_base:
            break
    n_samples = draw(st.integers(1, 5))
    samples = []
    for _ in range(n_samples):
        ploidy = draw(st.integers(1, 4))
        n_g = draw(st.integers(1, 4))
        gens = []
        for _ in range(n_g):
            g = sorted(draw(st.lists(st.integers(0, len(pool) - 1), min_size=ploidy, max_size=ploidy)))
            if g not in gens:
                gens.append(g)
        # dyadic weights summing to 16
        cuts = sorted(draw(st.lists(st.integers(1, 15), min_size=len(gens) - 1, max_size=len(gens) - 1, unique=True))) if len(gens) > 1 else []
        pts = [0] + cuts + [16]
        w = [pts[i + 1] - pts[i] for i in range(len(gens))]
        samples.append({"ploidy": ploidy, "genotypes": gens, "weights16": w})
    mode = draw(st.sampled_from(["grid", "realised", "zero", "one"]))
    thr16 = draw(st.integers(0, 16))
    return {"kind": "posteriors", "pool": pool, "samples": samples, "threshold_mode": mode, "threshold16": thr16, "pick": draw(st.integers(0, 100))}


def check_posteriors(ctx, case):
    from mchap.assemble.classes import PosteriorGenotypeDistribution
    from mchap.assemble import call_posterior_haplotypes
    from mchap.application.assemble import _genotype_as_alleles, _genotype_posterior_as_array

    problems = []
    pool = case["pool"]
    n_base = len(pool[0])
    # exact occurrence and dosage per sample
    occ, dose = [], []
    for s in case["samples"]:
        o, d = {}, {}
        for g, w in zip(s["genotypes"], s["weights16"]):
            p = Fraction(w, 16)
            for a in set(g):
                o[a] = o.get(a, 0) + p
                d[a] = d.get(a, 0) + p * g.count(a)
        occ.append(o)
        dose.append(d)
    realised = sorted({v for o in occ for v in o.values()})
    if case["threshold_mode"] == "realised" and realised:
        thr = realised[case["pick"] % len(realised)]
    elif case["threshold_mode"] == "zero":
        thr = Fraction(0)
    elif case["threshold_mode"] == "one":
        thr = Fraction(1)
    else:
        thr = Fraction(case["threshold16"], 16)
    qualifies = {}
    weight = {}
    for o, d in zip(occ, dose):
        for a, v in o.items():
            if v >= thr:
                qualifies[a] = True
                weight[a] = weight.get(a, 0) + d[a]
    ref_idx = pool.index([0] * n_base) if [0] * n_base in pool else None
    exp_ref_observed = ref_idx is not None and qualifies.get(ref_idx, False)
    exp_alts = {a for a in qualifies if a != ref_idx}
    excluded_any = any(a not in qualifies for o in occ for a in o)
    ctx.record(case, len(case["samples"]) >= 2 and excluded_any and len(exp_alts) >= 1,
               ["posteriors", "threshold:" + case["threshold_mode"]] + (["ref_masked"] if not exp_ref_observed else []) + (["threshold_equals_realised"] if thr in realised else []))

    with guard(problems, "call_posterior_haplotypes"):
        posts = []
        for s in case["samples"]:
            g = np.array([[pool[a] for a in gen] for gen in s["genotypes"]], dtype=np.int8).reshape(len(s["genotypes"]), s["ploidy"], n_base)
            posts.append(PosteriorGenotypeDistribution(g, np.array([w / 16 for w in s["weights16"]], dtype=float)))
        haps, ref_observed = call_posterior_haplotypes(posts, threshold=float(thr))
        haps_l = [[int(x) for x in h] for h in haps]
        if haps_l[0] != [0] * n_base:
            problems.append(Problem("haplotypes:ref_not_first", "row 0 is %s" % haps_l[0]))
            return problems
        if bool(ref_observed) != bool(exp_ref_observed):
            problems.append(Problem("haplotypes:ref_observed", "ref_observed=%s but the reference %s the threshold %s (occurrences %s)" % (ref_observed, "meets" if exp_ref_observed else "does not meet", thr, [o.get(ref_idx) for o in occ])))
        got_alts = haps_l[1:]
        if len({tuple(h) for h in got_alts}) != len(got_alts) or [0] * n_base in got_alts:
            problems.append(Problem("haplotypes:duplicates", "ALT list %s has duplicates / the reference" % got_alts))
            return problems
        exp_alt_seqs = sorted(pool[a] for a in exp_alts)
        if sorted(got_alts) != exp_alt_seqs:
            problems.append(Problem("haplotypes:alt_set", "threshold %s: ALT haplotypes %s, expected exactly those with occurrence >= threshold in some sample: %s (occurrences %s)" % (thr, sorted(got_alts), exp_alt_seqs, [{str(pool[a]): str(v) for a, v in o.items()} for o in occ])))
            return problems
        ws = [weight[pool.index(h)] for h in got_alts]
        if any(ws[i] < ws[i + 1] for i in range(len(ws) - 1)):
            problems.append(Problem("haplotypes:alt_order", "ALT weights (dosage summed over qualifying samples) not non-increasing: %s for %s" % ([str(w) for w in ws], got_alts)))
        # labels as assemble builds them
        labels = {np.array(h, dtype=np.int8).tobytes(): i for i, h in enumerate(haps_l)}
        if not ref_observed:
            labels.pop(np.array(haps_l[0], dtype=np.int8).tobytes())
        listed = {tuple(h): i for i, h in enumerate(haps_l)}
        for s, post in zip(case["samples"], posts):
            mode = int(np.argmax(post.probabilities))
            gen = post.genotypes[mode]
            alleles = [int(x) for x in _genotype_as_alleles(gen, labels)]
            exp = []
            for h in gen:
                t = tuple(int(x) for x in h)
                if t in listed and (listed[t] != 0 or ref_observed):
                    exp.append(listed[t])
                else:
                    exp.append(-1)
            exp_sorted = sorted(x for x in exp if x >= 0) + [-1] * sum(1 for x in exp if x < 0)
            if alleles != exp_sorted:
                problems.append(Problem("gt:alleles", "genotype %s -> GT %s, expected %s (ref_observed=%s)" % (gen.tolist(), alleles, exp_sorted, ref_observed)))
                break
            # allele numbers beyond 127 (many ALT alleles nominated by many samples) must survive
            big = {k_: v + 200 for k_, v in labels.items()}
            alleles_big = [int(x) for x in _genotype_as_alleles(gen, big)]
            if alleles_big != [x + 200 if x >= 0 else -1 for x in exp_sorted]:
                problems.append(Problem("gt:large_allele_numbers", "labels shifted by 200: GT %s, expected %s" % (alleles_big, [x + 200 if x >= 0 else -1 for x in exp_sorted])))
                break
            if not ref_observed and 0 in alleles:
                problems.append(Problem("gt:masked_reference_used", "GT %s uses allele 0 although the reference is masked" % alleles))
                break
            arr = _genotype_posterior_as_array(post, labels)
            n_listed = len(haps_l)
            if len(arr) != R.n_genotypes(n_listed, s["ploidy"]):
                problems.append(Problem("gp:length", "GP array has %d entries for %d listed alleles (incl. a masked reference) and ploidy %d (expected %d)" % (len(arr), n_listed, s["ploidy"], R.n_genotypes(n_listed, s["ploidy"]))))
                break
            exp_arr = [0.0] * len(arr)
            for g, w in zip(s["genotypes"], s["weights16"]):
                al = []
                ok = True
                for a in g:
                    t = tuple(pool[a])
                    if t in listed and (listed[t] != 0 or ref_observed):
                        al.append(listed[t])
                    else:
                        ok = False
                if ok:
                    exp_arr[R.genotype_rank(al)] = w / 16
            if any(abs(float(x) - y) > 1e-12 for x, y in zip(arr, exp_arr)):
                problems.append(Problem("gp:placement", "GP array %s expected %s" % (np.round(arr, 4).tolist(), exp_arr)))
                break
            if float(np.sum(arr)) > 1 + 1e-9:
                problems.append(Problem("gp:sum", "GP sums to %r" % float(np.sum(arr))))
                break
    return problems


# ------------------------------------------------------------------ CLI


@st.composite
def cli_case(draw):
    spec = draw(D.dataset_spec(max_loci=2, max_snvs=4, max_samples=3, max_reads=12, mapq_values=(60,), flags=False, min_reads=0, extra_bases=True))
    ploidy = {s: draw(st.sampled_from([2, 4, 3])) for s in spec["samples"]}
    thrs = [draw(st.sampled_from([0.05, 0.2, 0.5, 0.8, 0.95, 1.0])) for _ in range(2)]
    # some samples are made deep and homozygous (many copies of one read): every SNV is then fixed before sampling starts
    deep = {s: draw(st.integers(25, 60)) for s in spec["samples"] if draw(st.integers(0, 2)) == 0}
    # one locus without any read in any sample (posterior = prior sample: no haplotype is certain) combined with a threshold near 1
    strip = draw(st.integers(0, len(spec["loci"]) - 1)) if draw(st.integers(0, 2)) == 0 else None
    if strip is not None:
        thrs[0] = draw(st.sampled_from([0.95, 1.0]))
    return {"kind": "cli", "spec": spec, "ploidy": ploidy, "thresholds": thrs, "seed": draw(st.integers(1, 10000)), "deep": deep, "strip_locus": strip}


def deepen(spec, deep):
    """Replace the reads of the given samples, locus by locus, by n copies of the read covering most SNVs of that locus."""
    import copy

    spec = copy.deepcopy(spec)
    n_clone = 0
    for b in spec["bams"]:
        sm = {rg["id"]: rg["sm"] for rg in b["read_groups"]}
        keep = [r for r in b["reads"] if sm[r["rg"]] not in deep]
        for sample, n in sorted(deep.items()):
            mine = [r for r in b["reads"] if sm[r["rg"]] == sample]
            for locus in spec["loci"]:
                pos = [v["pos"] for v in spec["snvs"] if v["contig"] == locus["contig"] and locus["start"] <= v["pos"] < locus["stop"]]
                cand = [r for r in mine if r["contig"] == locus["contig"] and D.overlaps(r, locus["start"], locus["stop"]) and not r.get("flag", {}).get("unmapped")]
                if not cand or not pos:
                    continue
                best = max(cand, key=lambda r: (sum(1 for q in pos if q in D.aligned_bases(r)), r["qname"]))
                for _ in range(n):
                    c = copy.deepcopy(best)
                    c["qname"] = "deep%d" % n_clone
                    c["flag"] = {}
                    c.pop("mate_pos", None)
                    n_clone += 1
                    keep.append(c)
        b["reads"] = keep
    return spec


def check_cli(ctx, case):
    problems = []
    spec = deepen(case["spec"], case["deep"]) if case.get("deep") else case["spec"]
    if case.get("strip_locus") is not None:
        import copy

        spec = copy.deepcopy(spec)
        L = spec["loci"][case["strip_locus"]]
        for b in spec["bams"]:
            b["reads"] = [r for r in b["reads"] if not (r["contig"] == L["contig"] and D.overlaps(r, L["start"], L["stop"]))]
    wd = os.path.join(common.work_dir(), "c13")
    shutil.rmtree(wd, ignore_errors=True)
    nontrivial = False
    extra_classes = set()
    try:
        paths = D.write_dataset(spec, wd)
        kw = dict(ploidy=case["ploidy"], directory=wd)
        # short chains keep the posterior diffuse so that thresholds bite
        mcmc = ["--mcmc-steps", 40, "--mcmc-burn", 5, "--mcmc-chains", 1, "--mcmc-seed", case["seed"]]

        def run(thr):
            args = P.common_args(paths, **kw) + ["--targets", paths["bed"], "--variants", paths["vcf"], "--reference", paths["fasta"]] + mcmc + \
                ["--haplotype-posterior-threshold", thr, "--report", "AOP", "AFP", "GP"]
            return P.run("assemble", args)

        with guard(problems, "cli"):
            out0, err0 = run(0.0)
            if err0 is not None:
                problems.append(Problem("assemble:raised:%s" % type(err0).__name__, "threshold 0 run failed: %s" % CLI.describe(err0)))
                return problems
            h0, samples, recs0 = CLI.parse_records(out0)
            # threshold 0 lists every sampled haplotype: genotypes are complete, alleles are distinct sequences, AFP sums to 1
            for r0 in recs0:
                seqs0 = [r0["REF"]] + r0["ALT"]
                if len(set(seqs0)) != len(seqs0):
                    problems.append(Problem("cli:duplicate_allele_sequence", "threshold 0: %s:%d lists a sequence twice: %s" % (r0["CHROM"], r0["POS"], seqs0)))
                    return problems
                for s in samples:
                    gt0 = r0["samples"][s]["GT"].split("/")
                    if "." in gt0:
                        problems.append(Problem("cli:unknown_allele_at_threshold_0", "threshold 0: %s:%d sample %s GT %s although every sampled haplotype qualifies (AOP %s)" % (r0["CHROM"], r0["POS"], s, "/".join(gt0), r0["samples"][s]["AOP"])))
                        return problems
                    afp0 = V.floats(r0["samples"][s]["AFP"])
                    if abs(sum(x or 0 for x in afp0) - 1) > 0.0005 * len(afp0) + 1e-9:
                        problems.append(Problem("cli:afp_sum_at_threshold_0", "threshold 0: %s:%d sample %s AFP %s does not sum to 1" % (r0["CHROM"], r0["POS"], s, r0["samples"][s]["AFP"])))
                        return problems
            for thr in case["thresholds"]:
                out, err = run(thr)
                if err is not None:
                    problems.append(Problem("assemble:raised:%s" % type(err).__name__, "threshold %r run failed: %s" % (thr, CLI.describe(err))))
                    return problems
                _, _, recs = CLI.parse_records(out)
                for r0, r in zip(recs0, recs):
                    seqs0 = [r0["REF"]] + r0["ALT"]
                    aop0 = {s: V.floats(r0["samples"][s]["AOP"]) for s in samples}
                    max_occ = {seq: max((aop0[s][i] or 0.0) for s in samples) for i, seq in enumerate(seqs0)}
                    ambiguous = {seq for seq, v in max_occ.items() if abs(v - thr) <= 0.0005 + 1e-12}
                    exp_alts = {seq for seq in seqs0[1:] if max_occ[seq] >= thr and seq not in ambiguous}
                    got_alts = set(r["ALT"])
                    if (got_alts - ambiguous) != exp_alts or not got_alts <= set(seqs0[1:]):
                        problems.append(Problem("cli:alt_set", "threshold %r: ALT %s, expected haplotypes with max AOP(t=0) >= threshold: %s (max AOP %s)" % (thr, sorted(got_alts), sorted(exp_alts), max_occ)))
                        return problems
                    ref_seq = r0["REF"]
                    ref_in_t0 = "REFMASKED" not in r0["INFO"]
                    if ref_seq not in ambiguous:
                        exp_masked = not (ref_in_t0 and max_occ[ref_seq] >= thr)
                        if ("REFMASKED" in r["INFO"]) != exp_masked:
                            problems.append(Problem("cli:refmasked", "threshold %r: REFMASKED=%s but reference max AOP(t=0)=%r (listed at t=0: %s)" % (thr, "REFMASKED" in r["INFO"], max_occ[ref_seq], ref_in_t0)))
                            return problems
                    if len(exp_alts) < len(seqs0) - 1 and exp_alts:
                        nontrivial = True
                    # GT: '.' exactly for haplotypes of the called genotype that were excluded
                    seqs = [r["REF"]] + r["ALT"]
                    for s in samples:
                        gt0 = r0["samples"][s]["GT"].split("/")
                        gt = r["samples"][s]["GT"].split("/")
                        called0 = [seqs0[int(a)] for a in gt0 if a != "."]
                        if len(called0) == len(gt0) and not (set(called0) & ambiguous) and ref_seq not in ambiguous:
                            listed = set(r["ALT"]) | ({r["REF"]} if "REFMASKED" not in r["INFO"] else set())
                            exp_named = sorted(seqs.index(x) for x in called0 if x in listed)
                            exp_gt = [str(a) for a in exp_named] + ["."] * (len(gt0) - len(exp_named))
                            if gt != exp_gt:
                                problems.append(Problem("cli:gt_unknown_alleles", "threshold %r sample %s: GT %s, expected %s (genotype at t=0: %s)" % (thr, s, gt, exp_gt, called0)))
                                return problems
                        if "NOA" in r["FILTER"].split(";"):
                            extra_classes.add("cli:NOA_record")
                            if any(x != "." for x in gt):
                                problems.append(Problem("cli:noa_record_with_called_allele", "threshold %r: record flagged NOA (no allele observed) but sample %s has GT %s" % (thr, s, "/".join(gt))))
                                return problems
                        if "REFMASKED" in r["INFO"] and "0" in gt:
                            problems.append(Problem("cli:masked_reference_in_gt", "REFMASKED record with GT %s" % gt))
                            return problems
                        afp = V.floats(r["samples"][s]["AFP"])
                        gp = V.floats(r["samples"][s]["GP"])
                        # same seed => same posterior: AFP / AOP of every listed haplotype equal the threshold-0 values of that sequence
                        afp0 = V.floats(r0["samples"][s]["AFP"])
                        aop = V.floats(r["samples"][s]["AOP"])
                        for i, seq in enumerate(seqs):
                            if seq in seqs0 and not ("REFMASKED" in r["INFO"] and i == 0):
                                j = seqs0.index(seq)
                                if i < len(afp) and afp[i] is not None and afp0[j] is not None and (abs(afp[i] - afp0[j]) > 0.0011 or abs((aop[i] or 0) - (aop0[s][j] or 0)) > 0.0011):
                                    problems.append(Problem("cli:afp_of_listed_haplotype", "threshold %r sample %s haplotype %s: AFP/AOP %r/%r, at threshold 0 %r/%r" % (thr, s, seq, afp[i], aop[i], afp0[j], aop0[s][j])))
                                    return problems
                        n_g = R.n_genotypes(len(seqs), case["ploidy"][s])
                        if gp != [None] and len(gp) != n_g:
                            problems.append(Problem("cli:gp_length", "sample %s GP has %d values for %d alleles ploidy %d" % (s, len(gp), len(seqs), case["ploidy"][s])))
                            return problems
                        if sum(x or 0 for x in afp) > 1 + 0.0005 * len(afp) + 1e-9 or sum(x or 0 for x in gp) > 1 + 0.0005 * len(gp) + 1e-9:
                            problems.append(Problem("cli:sums", "sample %s: sum AFP %r sum GP %r exceed 1" % (s, sum(x or 0 for x in afp), sum(x or 0 for x in gp))))
                            return problems
    finally:
        shutil.rmtree(wd, ignore_errors=True)
        ctx.record(case, nontrivial and len(spec["samples"]) >= 2, ["cli"] + (["cli:some_haplotype_excluded"] if nontrivial else []) + (["cli:deep_homozygous_sample"] if case.get("deep") else []) + (["cli:locus_without_reads"] if case.get("strip_locus") is not None else []) + sorted(extra_classes))
    return problems


def replay(ctx, case):
    return check_cli(ctx, case) if case["kind"] == "cli" else check_posteriors(ctx, case)


def run(ctx):
    q = ctx.quick
    ctx.hyp("posteriors", posteriors_case(), check_posteriors, 1500 if q else 10000)
    ctx.hyp("cli", cli_case(), check_cli, 35 if q else 120)
