"""C19 — find-snvs depths equal the filtered pileup; thresholds applied as documented."""

import os
import shutil

import numpy as np
from hypothesis import strategies as st

from .. import common
from ..common import Problem, guard
from ..gen import cli as CLI
from ..gen import dataset as D
from ..ref import vcfparse as V

PROPERTY = "C19"
RULE = (
    "hypothesis draws 1-3 single-sample BAMs of UNPAIRED reads (base quality 30, depth < 1000, no secondary alignments: keeps "
    "pysam's unmentioned pileup defaults out of play) with flags dup/qcfail/supplementary/unmapped, MAPQ around the threshold, "
    "deletions, skips, clips and N bases, 1-2 target intervals, a read-filter configuration (MAPQ threshold on/next to realised "
    "values x the three keep flags) and threshold options drawn on/next to realised frequencies and depths. Run 1 "
    "(--ind-maf 0 --ind-mad 0 --min-ind 0) exposes the depth of all four nucleotides at every covered position; run 2 uses "
    "the drawn thresholds; a second generator realises depth tables as reads (unequal depths, near-tied ALT alleles, --ind-maf "
    "placed exactly on a realised count/depth whose float product (c/d)*d differs from c). Oracle: independent CIGAR-walking base counts + the documented inclusion rule. non-trivial = a "
    "target position covered by a read of each filterable kind that the configuration treats differently, and >=2 samples; "
    "distinct by decoded case"
)
ASSUMPTIONS = [
    "depth of a nucleotide = number of passing alignments with that base aligned (M/=/X) to the position; N and deleted/skipped positions count for nothing",
    "with --maf > 0, positions where some sample has zero depth are excluded from the iff (mean of an undefined frequency is not specified) and counted",
    "ALT order by non-increasing ADMF with ties free; frequencies compared with a 1e-9 guard band around thresholds",
]

NUC = "ACGT"


def expected_depths(spec, cfg, contig, start, stop):
    """dict pos -> list over bams of [A,C,G,T] counts."""
    out = {}
    for p in range(start, stop):
        out[p] = [[0, 0, 0, 0] for _ in spec["bams"]]
    for bi, b in enumerate(spec["bams"]):
        for r in b["reads"]:
            if r["contig"] != contig or not D.read_passes(r, cfg):
                continue
            for p, base in D.aligned_bases(r).items():
                if start <= p < stop and base in NUC:
                    out[p][bi][NUC.index(base)] += 1
    return out


@st.composite
def case_strategy(draw):
    # one BAM per sample, all sequencing the same loci / SNVs (so that the same minor allele recurs across samples)
    spec = draw(D.dataset_spec(max_loci=2, max_snvs=8, max_samples=3, min_samples=draw(st.sampled_from([1, 2, 2, 2, 3])), max_reads=14, paired=False,
                               flags=False, multi_rg=False, mapq_values=(0, 10, 19, 20, 21, 30, 60), n_contigs=1, min_reads=2, locus_len=(8, 14), sub_rate=5))
    for i, b in enumerate(spec["bams"]):
        reads = b["reads"]
        for r in reads:
            fl = {}
            if draw(st.integers(0, 2)) == 0:
                fl[draw(st.sampled_from(["dup", "qcfail", "supp", "unmapped", "reverse"]))] = True
            r["flag"] = fl
        # samples of unbalanced depth: replicate the reads of some samples (new read names)
        factor = draw(st.sampled_from([1, 1, 2, 5]))
        if factor > 1:
            rep = []
            for f in range(factor):
                for r in reads:
                    r2 = dict(r)
                    r2["qname"] = "%s_x%d" % (r["qname"], f)
                    rep.append(r2)
            b["reads"] = rep
    n_bams = len(spec["bams"])
    bams = spec["bams"]
    mapqs = sorted({r["mapq"] for b in bams for r in b["reads"]}) or [20]
    cfg = {"mapq": max(0, draw(st.sampled_from(mapqs)) + draw(st.sampled_from([0, 0, 1, -1]))), "keep_dup": draw(st.booleans()),
           "keep_qcfail": draw(st.booleans()), "keep_supp": draw(st.booleans()), "rg_field": "SM"}
    return {"kind": "find_snvs", "spec": spec, "cfg": cfg,
            "thr": {"ind_maf_pick": draw(st.integers(0, 50)), "ind_maf_eps": draw(st.sampled_from([0, 0, 1, -1])),
                    "ind_maf_grid": draw(st.sampled_from([None, None, 0.1, 0.2, 0.25, 0.34, 0.5])),
                    "ind_mad": draw(st.sampled_from([0, 1, 2, 2, 3, 3, 4, 5])), "min_ind": draw(st.sampled_from([1, 1, 1, 0] + list(range(1, n_bams + 1)))),
                    "maf_pick": draw(st.integers(0, 50)), "maf_on": draw(st.integers(0, 3)) == 0, "mad": draw(st.sampled_from([0, 0, 0, 1, 2, 3, 5, 8])),
                    "mad_realised": draw(st.integers(0, 2)) == 0, "mad_pick": draw(st.integers(0, 50))}}


# count / depth pairs whose frequency is sensitive to the way the comparison is written in floating point
# ((c/d)*d != c although c/d >= c/d holds trivially): thresholds placed exactly on such a realised frequency
ROUNDING_PAIRS = {True: [(c, d) for d in range(5, 61) for c in range(2, d) if (c / d) * d > c],
                  False: [(c, d) for d in range(5, 61) for c in range(2, d) if (c / d) * d < c]}


@st.composite
def table_case(draw):
    """Depth tables realised as reads: per sample a depth (shallow or deep) and, for each of 3 positions, counts of the four
    nucleotides summing to the depth.  Aims at the joint per-individual rule (the SAME individual must meet --ind-maf and --ind-mad)."""
    n_s = draw(st.integers(2, 3))
    near_tie = draw(st.integers(0, 3)) == 0  # two ALT alleles whose mean frequencies differ by less than the print precision
    if near_tie:
        n_s = 2
    n_pos = 3
    seq = "".join(draw(st.lists(st.sampled_from(NUC), min_size=30, max_size=30)))
    start = 10
    bams = []
    rounding = None if near_tie or draw(st.booleans()) else draw(st.sampled_from(ROUNDING_PAIRS[draw(st.booleans())]))
    for i in range(n_s):
        depth = draw(st.sampled_from([2, 3, 4, 5, 20, 40, 60]))
        if near_tie:
            depth = 40 + i  # depths d and d+1
        if rounding and i == 0:
            depth = rounding[1]
        cols = []
        for p in range(n_pos):
            if rounding and i == 0 and p == 0:
                alleles = list(draw(st.permutations(NUC)))
                cols.append([alleles[0]] * (depth - rounding[0]) + [alleles[1]] * rounding[0])
                continue
            if near_tie and p == 0:
                a = 10
                ref_b = seq[start]
                others = [x for x in NUC if x != ref_b]
                c1, c2 = (a + 1 - i, a + i)  # (11,10) in the first sample, (10,11) in the second
                col = [ref_b] * (depth - c1 - c2) + [others[0]] * c1 + [others[1]] * c2
                cols.append(col)
                continue
            minor = draw(st.integers(0, max(1, depth // 4 if depth > 10 else depth)))
            minor2 = draw(st.integers(0, 2)) if depth - minor >= 2 else 0
            major = depth - minor - minor2
            alleles = list(draw(st.permutations(NUC)))
            col = [alleles[0]] * major + [alleles[1]] * minor + [alleles[2]] * minor2
            rot = draw(st.integers(0, depth - 1))
            cols.append(col[rot:] + col[:rot])
        reads = []
        for k in range(depth):
            rs = list(seq[start - 2:start + n_pos + 2])
            for p in range(n_pos):
                col = cols[p]
                rs[2 + p] = col[k]
            reads.append({"qname": "t%d_%d" % (i, k), "rg": "rg%d" % i, "contig": "chr1", "pos": start - 2, "cigar": [["M", n_pos + 4]], "seq": "".join(rs),
                          "mapq": 60, "qual": 30, "flag": {}})
        bams.append({"name": "bam%d" % i, "read_groups": [{"id": "rg%d" % i, "sm": "S%d" % i}], "reads": reads})
    spec = {"contigs": [{"name": "chr1", "seq": seq}], "snvs": [], "loci": [{"contig": "chr1", "start": start, "stop": start + n_pos, "name": "T0"}],
            "bams": bams, "samples": ["S%d" % i for i in range(n_s)]}
    cfg = {"mapq": 20, "keep_dup": False, "keep_qcfail": False, "keep_supp": False, "rg_field": "SM"}
    thr = {"ind_maf_pick": 0, "ind_maf_eps": 0, "ind_maf_grid": draw(st.sampled_from([0.05, 0.1, 0.2, 0.25, 0.34, 0.5] if not near_tie else [0.05, 0.1, 0.2])),
           "ind_mad": draw(st.integers(1, 6)), "min_ind": draw(st.integers(1, n_s)), "maf_pick": 0, "maf_on": False, "mad": 0,
           "mad_realised": False, "mad_pick": 0}
    if rounding:
        thr.update({"ind_maf_grid": rounding[0] / rounding[1], "ind_mad": draw(st.integers(1, min(3, rounding[0]))), "min_ind": 1})
    return {"kind": "find_snvs", "spec": spec, "cfg": cfg, "thr": thr, "table": "near_tie" if near_tie else ("rounding_sensitive_threshold" if rounding else "plain")}


def cfg_args(cfg):
    a = ["--mapping-quality", cfg["mapq"]]
    if cfg["keep_dup"]:
        a.append("--keep-duplicate-reads")
    if cfg["keep_qcfail"]:
        a.append("--keep-qcfail-reads")
    if cfg["keep_supp"]:
        a.append("--keep-supplementary-reads")
    return a


def check_case(ctx, case):
    problems = []
    spec, cfg = case["spec"], case["cfg"]
    wd = os.path.join(common.work_dir(), "c19")
    shutil.rmtree(wd, ignore_errors=True)
    n_b = len(spec["bams"])
    kinds = set()
    for b in spec["bams"]:
        for r in b["reads"]:
            f = r.get("flag", {})
            for k in ("dup", "qcfail", "supp"):
                if f.get(k):
                    kinds.add(k)
            if r["mapq"] < cfg["mapq"]:
                kinds.add("lowmapq")
    try:
        paths = D.write_dataset(spec, wd)
        fasta = {c["name"]: c["seq"] for c in spec["contigs"]}
        base_args = ["--bam"] + paths["bams"] + ["--targets", paths["bed"], "--reference", paths["fasta"]] + cfg_args(cfg)
        # ---------------- run 1: expose every depth
        with guard(problems, "find_snvs"):
            out, err = CLI.run_inprocess("find-snvs", base_args + ["--ind-maf", 0, "--ind-mad", 0, "--min-ind", 0])
            if err is not None:
                problems.append(Problem("find_snvs:raised:%s" % type(err).__name__, CLI.describe(err)))
                return problems
            header, samples, recs = CLI.parse_records(out)
            meta, hp = V.parse_header(header)
            got = {}
            for rec in recs:
                alleles = [rec["REF"]] + rec["ALT"]
                for si, s in enumerate(samples):
                    ad = V.floats(rec["samples"][s]["AD"])
                    d = got.setdefault((rec["CHROM"], rec["POS"] - 1), [[0, 0, 0, 0] for _ in samples])
                    for a, x in zip(alleles, ad):
                        d[si][NUC.index(a)] = int(x or 0)
            n_pos = 0
            for locus in spec["loci"]:
                exp = expected_depths(spec, cfg, locus["contig"], locus["start"], locus["stop"])
                for p, per in exp.items():
                    n_pos += 1
                    g = got.get((locus["contig"], p))
                    if g is None:
                        g = [[0, 0, 0, 0] for _ in samples]
                    # in the all-inclusive run a listed position shows all four nucleotides unless depth is zero for a sample
                    if any(sum(x) > 0 for x in per) or any(sum(x) > 0 for x in g):
                        if g != per and (locus["contig"], p) in got:
                            problems.append(Problem("depths:filtered_pileup", "position %s:%d config %s: allele depths [A,C,G,T] per sample %s, reads passing the configured filters give %s" % (locus["contig"], p + 1, cfg, g, per)))
                            return problems
                        if (locus["contig"], p) not in got and all(sum(x) > 0 for x in per):
                            problems.append(Problem("depths:position_missing", "position %s:%d has depth in every sample (%s) but is not reported in the all-inclusive run" % (locus["contig"], p + 1, per)))
                            return problems
            ctx.count("positions_compared", n_pos)

        # ---------------- run 2: thresholds
        with guard(problems, "thresholds"):
            freqs = sorted({c / sum(x) for locus in spec["loci"] for per in expected_depths(spec, cfg, locus["contig"], locus["start"], locus["stop"]).values() for x in per if sum(x) > 0 for c in x if c > 0})
            t = case["thr"]
            ind_maf = 0.1
            if t.get("ind_maf_grid") is not None:
                ind_maf = t["ind_maf_grid"]
            elif freqs:
                ind_maf = min(1.0, max(0.0, freqs[t["ind_maf_pick"] % len(freqs)] + t["ind_maf_eps"] * 1e-3))
            maf = (freqs[t["maf_pick"] % len(freqs)] / max(1, n_b)) if (freqs and t["maf_on"]) else 0.0
            if t.get("mad_realised"):
                totals = sorted({sum(x[a] for x in per) for locus in spec["loci"] for per in expected_depths(spec, cfg, locus["contig"], locus["start"], locus["stop"]).values() for a in range(4)} - {0})
                if totals:
                    t = dict(t, mad=totals[t["mad_pick"] % len(totals)])
            args2 = base_args + ["--ind-maf", repr(ind_maf), "--ind-mad", t["ind_mad"], "--min-ind", t["min_ind"], "--maf", repr(maf), "--mad", t["mad"]]
            out2, err2 = CLI.run_inprocess("find-snvs", args2)
            if err2 is not None:
                problems.append(Problem("find_snvs:raised:%s" % type(err2).__name__, CLI.describe(err2)))
                return problems
            header2, samples2, recs2 = CLI.parse_records(out2)
            meta2, _ = V.parse_header(header2)
            for line in [r["line"] for r in recs2]:
                rec, pr = V.check_record(line, meta2)
                for x in pr[:2]:
                    problems.append(Problem("record:strict", "%s | %s" % (x, line[:200])))
            if problems:
                return problems
            by_pos = {(r["CHROM"], r["POS"] - 1): r for r in recs2}
            eps = 1e-9
            for locus in spec["loci"]:
                exp = expected_depths(spec, cfg, locus["contig"], locus["start"], locus["stop"])
                for p, per in exp.items():
                    tot = [sum(x) for x in per]
                    ambiguous = False
                    qualifies = []
                    for a in range(4):
                        n_ind = 0
                        for x, tt in zip(per, tot):
                            if tt == 0:
                                continue
                            f = x[a] / tt
                            if abs(f - ind_maf) < eps and f != ind_maf:
                                ambiguous = True  # (an exactly realised threshold is decidable: same IEEE division)
                            if f >= ind_maf and x[a] >= t["ind_mad"]:
                                n_ind += 1
                        ok = n_ind >= t["min_ind"]
                        if maf > 0:
                            if any(tt == 0 for tt in tot):
                                ambiguous = True
                            else:
                                mf = sum(x[a] / tt for x, tt in zip(per, tot)) / n_b
                                if abs(mf - maf) < eps:
                                    ambiguous = True
                                ok = ok and mf >= maf
                        if t["mad"] > 0:
                            ok = ok and sum(x[a] for x in per) >= t["mad"]
                        qualifies.append(ok)
                    if ambiguous:
                        ctx.count("threshold_boundary_or_undefined_skipped")
                        continue
                    if any(tt > 0 and x[a] > 0 and x[a] == t["ind_mad"] and x[a] / tt >= ind_maf for x, tt in zip(per, tot) for a in range(4)):
                        ctx.count("decided_on_ind_mad_boundary")
                    if any(tt > 0 and x[a] > 0 and x[a] / tt == ind_maf and x[a] >= t["ind_mad"] for x, tt in zip(per, tot) for a in range(4)):
                        ctx.count("decided_on_ind_maf_boundary")
                    ctx.count("positions_decided")
                    rec = by_pos.get((locus["contig"], p))
                    n_q = sum(qualifies)
                    if (rec is not None) != (n_q >= 2):
                        problems.append(Problem("thresholds:position_emitted", "position %s:%d depths %s: %d alleles qualify (ind-maf %r ind-mad %d min-ind %d maf %r mad %d) but the position is %s" % (locus["contig"], p + 1, per, n_q, ind_maf, t["ind_mad"], t["min_ind"], maf, t["mad"], "emitted" if rec is not None else "not emitted")))
                        return problems
                    if rec is None:
                        continue
                    refb = fasta[locus["contig"]][p]
                    if rec["REF"] != refb:
                        problems.append(Problem("thresholds:REF", "position %s:%d REF %s, reference base %s" % (locus["contig"], p + 1, rec["REF"], refb)))
                        return problems
                    listed = set(rec["ALT"])
                    exp_alt = {NUC[a] for a in range(4) if qualifies[a] and NUC[a] != refb}
                    if listed != exp_alt:
                        problems.append(Problem("thresholds:alleles_listed", "position %s:%d depths %s: ALT %s, alleles meeting the thresholds %s" % (locus["contig"], p + 1, per, sorted(listed), sorted(exp_alt))))
                        return problems
                    if ("REFMASKED" in rec["INFO"]) != (not qualifies[NUC.index(refb)]):
                        problems.append(Problem("thresholds:REFMASKED", "position %s:%d REFMASKED=%s but reference allele qualifies=%s" % (locus["contig"], p + 1, "REFMASKED" in rec["INFO"], qualifies[NUC.index(refb)])))
                        return problems
                    # ADMF order and AD values
                    alleles = [rec["REF"]] + rec["ALT"]
                    admf = V.floats(rec["INFO"]["ADMF"])
                    ad = V.floats(rec["INFO"]["AD"])
                    if [int(x) for x in ad] != [sum(x[NUC.index(a)] for x in per) for a in alleles]:
                        problems.append(Problem("thresholds:INFO_AD", "position %s:%d INFO AD %s for alleles %s, depths %s" % (locus["contig"], p + 1, rec["INFO"]["AD"], alleles, per)))
                        return problems
                    exp_admf = []
                    for a in alleles:
                        ai = NUC.index(a)
                        vals = [(x[ai] / tt if qualifies[ai] else 0.0) for x, tt in zip(per, tot) if tt > 0]
                        exp_admf.append(sum(vals) / len(vals) if vals else None)
                    if any(e is not None and (g is None or abs(g - e) > 0.0005 + 1e-9) for g, e in zip(admf, exp_admf)):
                        problems.append(Problem("thresholds:ADMF", "position %s:%d ADMF %s expected %s" % (locus["contig"], p + 1, rec["INFO"]["ADMF"], exp_admf)))
                        return problems
                    alt_m = [e for e in exp_admf[1:] if e is not None]
                    if any(alt_m[i] < alt_m[i + 1] - 1e-12 for i in range(len(alt_m) - 1)):
                        problems.append(Problem("thresholds:ALT_order", "position %s:%d ALT %s not ordered by decreasing mean frequency %s" % (locus["contig"], p + 1, rec["ALT"], alt_m)))
                        return problems
                    for si, s in enumerate(samples2):
                        sad = V.floats(rec["samples"][s]["AD"])
                        if [int(x) for x in sad] != [per[si][NUC.index(a)] for a in alleles]:
                            problems.append(Problem("thresholds:FORMAT_AD", "position %s:%d sample %s AD %s, depths %s for alleles %s" % (locus["contig"], p + 1, s, rec["samples"][s]["AD"], per[si], alleles)))
                            return problems
    finally:
        shutil.rmtree(wd, ignore_errors=True)
        ctx.record(case, len(kinds) >= 2 and n_b >= 2, ["find_snvs", "n_bams=%d" % n_b] + ["has_" + k for k in sorted(kinds)] + (["table:" + case["table"]] if case.get("table") else []))
    return problems


def replay(ctx, case):
    return check_case(ctx, case)


def run(ctx):
    q = ctx.quick
    ctx.hyp("find_snvs", case_strategy(), check_case, 80 if q else 300)
    ctx.hyp("threshold_table", table_case(), check_case, 80 if q else 300)
