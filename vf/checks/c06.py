"""C06 — read extraction: the matrix fed to inference is exactly the filtered pileup."""

import os
import shutil
from collections import Counter

import numpy as np
from hypothesis import strategies as st

from .. import common
from ..common import Problem, guard
from ..gen import cli as CLI
from ..gen import dataset as D

PROPERTY = "C06"
RULE = (
    "hypothesis draws a dataset (1-2 contigs, 1-3 loci with 0-5 bi/tri/tetra-allelic SNVs, 1-3 samples spread over BAM files "
    "with 1-2 read groups each; alignments with CIGARs from a grammar S?(M(I|D|N))*MS?, start positions straddling the locus "
    "edges, flags dup/qcfail/supplementary/secondary/unmapped, MAPQ in {0,19,20,21,60,255}, mates sharing a qname with "
    "agreeing/disagreeing/N bases, bases outside the allele list) and a configuration (MAPQ threshold drawn around realised "
    "values, the three keep flags, read-group field SM/ID); every (file, locus, sample) read matrix is compared as a dict by "
    "read name with an independent CIGAR-walking pileup, then the encoded matrix / RCOUNT / SNVDP / DP / RCALLS / de-duplicated "
    "read distributions, then the FORMAT fields printed by assemble; fault variants (FASTA, all alignments, or only some later alignments of a "
    "file made against a reference that differs at an SNV) require an error. non-trivial dataset = >=1 alignment filtered out, >=1 indel/clip/skip over an "
    "SNV, >=1 merged mate pair; distinct by decoded case"
)
ASSUMPTIONS = [
    "htslib fetch semantics: an alignment overlaps the locus when its reference span (M,D,N,=,X) intersects [start,stop)",
    "secondary alignments are kept (the documented exclusions are duplicate, QC-fail, supplementary, unmapped, low MAPQ)",
    "SNVDP counts rows with an aligned base at the SNV (header: 'Read depth at each SNV position'), DP=round(mean SNVDP) with both neighbours admitted at exact .5",
    "base qualities are constant 30 and --use-base-phred-scores is not given",
]


def cfg_args(cfg):
    a = ["--mapping-quality", cfg["mapq"], "--read-group-field", cfg["rg_field"]]
    if cfg.get("error_rate") is not None:
        a += ["--base-error-rate", cfg["error_rate"]]
    if cfg["keep_dup"]:
        a.append("--keep-duplicate-reads")
    if cfg["keep_qcfail"]:
        a.append("--keep-qcfail-reads")
    if cfg["keep_supp"]:
        a.append("--keep-supplementary-reads")
    return a


def sample_names(spec, field):
    key = "sm" if field == "SM" else "id"
    names = []
    for b in spec["bams"]:
        for rg in b["read_groups"]:
            if rg[key] not in names:
                names.append(rg[key])
    return names


def bam_of_sample(spec, name, field):
    key = "sm" if field == "SM" else "id"
    for b in spec["bams"]:
        if any(rg[key] == name for rg in b["read_groups"]):
            return b
    return None


def expected_sample_rows(spec, locus, snvs, sample, cfg):
    b = bam_of_sample(spec, sample, cfg["rg_field"])
    return D.reference_pileup(spec, b, locus, snvs, sample, cfg)


def classify(spec, cfg):
    filtered = indel_over = merged = 0
    for b in spec["bams"]:
        names = Counter(r["qname"] for r in b["reads"])
        merged += sum(1 for v in names.values() if v > 1)
        for r in b["reads"]:
            if not D.read_passes(r, cfg):
                filtered += 1
            if any(op in ("I", "D", "N", "S") for op, n in r["cigar"]):
                ab = D.aligned_bases(r)
                span = D.ref_span(r["cigar"])
                for s in spec["snvs"]:
                    if s["contig"] == r["contig"] and r["pos"] <= s["pos"] < r["pos"] + span and s["pos"] not in ab:
                        indel_over += 1
                        break
    return filtered, indel_over, merged


def check_dataset(ctx, case):
    import pysam
    from mchap.io import read_bed4, extract_read_variants

    problems = []
    spec, cfg = case["spec"], case["cfg"]
    filtered, indel_over, merged = classify(spec, cfg)
    classes = ["dataset", "rg_field=" + cfg["rg_field"]]
    if filtered:
        classes.append("has_filtered_alignment")
    if indel_over:
        classes.append("indel_or_clip_over_snv")
    if merged:
        classes.append("merged_mate_pair")
    if any(len(b["read_groups"]) > 1 for b in spec["bams"]):
        classes.append("several_read_groups_per_file")
    if spec.get("fasta_lowercase"):
        classes.append("layout:soft_masked_fasta")
    if spec.get("split_snv_records") and any(len(s_["alleles"]) > 2 for s_ in spec["snvs"]):
        classes.append("layout:multiallelic_snv_split_over_records")
    if any(l["start"] == 0 for l in spec["loci"]):
        classes.append("layout:locus_at_contig_start")
    clen = {c["name"]: len(c["seq"]) for c in spec["contigs"]}
    if any(l["stop"] == clen[l["contig"]] for l in spec["loci"]):
        classes.append("layout:locus_at_contig_end")
    if any(l["stop"] - l["start"] <= 3 for l in spec["loci"]):
        classes.append("layout:tiny_locus")
    srt = sorted(spec["loci"], key=lambda l: (l["contig"], l["start"]))
    if any(a["contig"] == b["contig"] and b["start"] < a["stop"] for a, b in zip(srt, srt[1:])):
        classes.append("layout:overlapping_loci")
    ctx.record(case, bool(filtered and indel_over and merged), classes)
    wd = os.path.join(common.work_dir(), "c06")
    shutil.rmtree(wd, ignore_errors=True)
    try:
        paths = D.write_dataset(spec, wd)
        field = cfg["rg_field"]
        with guard(problems, "extract_read_variants"):
            loci = [b.set_sequence(paths["fasta"]).set_variants(paths["vcf"]) for b in read_bed4(paths["bed"])]
            n_matrices = 0
            for bam, path in zip(spec["bams"], paths["bams"]):
                key = "sm" if field == "SM" else "id"
                names = []
                for rg in bam["read_groups"]:
                    if rg[key] not in names:
                        names.append(rg[key])
                for locus_spec, locus in zip(spec["loci"], loci):
                    snvs = D.locus_snvs(spec, locus_spec)
                    if [v.start for v in locus.variants] != [s["pos"] for s in snvs] or [tuple(v.alleles) for v in locus.variants] != [tuple(s["alleles"]) for s in snvs]:
                        problems.append(Problem("locus:variants", "locus %s variants %s differ from the SNV file %s" % (locus_spec["name"], locus.variants, snvs)))
                        return problems
                    with pysam.AlignmentFile(path) as af:
                        got = extract_read_variants(locus, af, samples=None, id=field, min_quality=cfg["mapq"], skip_duplicates=not cfg["keep_dup"],
                                                    skip_qcfail=not cfg["keep_qcfail"], skip_supplementary=not cfg["keep_supp"], read_dicts=True)
                    if sorted(got) != sorted(names):
                        problems.append(Problem("extract:sample_keys", "samples returned %s, read groups give %s (field %s)" % (sorted(got), sorted(names), field)))
                        return problems
                    for name in names:
                        exp = D.reference_pileup(spec, bam, locus_spec, snvs, name, cfg)
                        got_rows = {q: "".join(v[0]) for q, v in got[name].items()}
                        exp_rows = {q: "".join(v) for q, v in exp.items()}
                        n_matrices += 1
                        if got_rows != exp_rows:
                            diff = sorted(set(got_rows.items()) ^ set(exp_rows.items()))[:4]
                            problems.append(Problem("extract:matrix", "file %s locus %s sample %s (config %s): read matrix differs from the filtered pileup; differing rows (qname, calls) %s; SNV positions %s" % (bam["name"], locus_spec["name"], name, cfg, diff, [s["pos"] for s in snvs])))
                            return problems
                    # the samples= filter returns exactly that sample's matrix
                    if len(names) > 1:
                        with pysam.AlignmentFile(path) as af:
                            one = extract_read_variants(locus, af, samples=names[-1], id=field, min_quality=cfg["mapq"], skip_duplicates=not cfg["keep_dup"],
                                                        skip_qcfail=not cfg["keep_qcfail"], skip_supplementary=not cfg["keep_supp"], read_dicts=True)
                        if list(one) != [names[-1]] or {q: "".join(v[0]) for q, v in one[names[-1]].items()} != {q: "".join(v[0]) for q, v in got[names[-1]].items()}:
                            problems.append(Problem("extract:samples_filter", "samples=%r returned keys %s / a different matrix" % (names[-1], list(one))))
                            return problems
            ctx.count("sample_matrices_compared", n_matrices)

        # ---- encoded reads and counts through the program object
        bam_arg = list(paths["bams"])
        if cfg.get("bam_form") == "listfile":
            lf = os.path.join(wd, "bams.txt")
            with open(lf, "w") as fh:
                fh.write("".join(p_ + "\n" for p_ in paths["bams"]))
            bam_arg = [lf]
        args = ["--bam"] + bam_arg + ["--targets", paths["bed"], "--variants", paths["vcf"], "--reference", paths["fasta"],
                                      "--ploidy", 2, "--mcmc-steps", 60, "--mcmc-burn", 20, "--mcmc-chains", 1, "--report", "SNVDP"] + cfg_args(cfg)
        err_rate = 0.0024 if cfg.get("error_rate") is None else cfg["error_rate"]
        with guard(problems, "encode_sample_reads"):
            prog = CLI.make_program("assemble", args)
            names = sample_names(spec, field)
            if sorted(prog.samples) != sorted(names):
                problems.append(Problem("program:samples", "program samples %s expected %s" % (prog.samples, names)))
                return problems
            expected_fields = {}
            for locus_spec, locus in zip(spec["loci"], loci):
                snvs = D.locus_snvs(spec, locus_spec)
                data = prog._locus_data(locus, prog.sample_bams)
                prog.encode_sample_reads(data)
                for name in names:
                    rows = expected_sample_rows(spec, locus_spec, snvs, name, cfg)
                    calls = D.rows_as_calls(rows, snvs)
                    got_calls = [tuple(int(x) for x in r) for r in data.read_calls[name]]
                    if Counter(got_calls) != Counter(calls):
                        problems.append(Problem("encode:read_calls", "locus %s sample %s: encoded read matrix %s differs from expected %s" % (locus_spec["name"], name, sorted(Counter(got_calls).items()), sorted(Counter(calls).items()))))
                        return problems
                    from mchap.io.vcf import formatfields as FORMAT

                    rcount = len(rows)
                    snvdp = [sum(1 for r in rows.values() if r[j] != "-") for j in range(len(snvs))]
                    rcalls = sum(1 for c in calls for x in c if x >= 0)
                    g_rcount = int(data.sampledata[FORMAT.RCOUNT][name])
                    g_snvdp = [int(x) for x in np.atleast_1d(data.sampledata[FORMAT.SNVDP][name])] if snvs else []
                    g_rcalls = int(data.sampledata[FORMAT.RCALLS][name])
                    g_dp = data.sampledata[FORMAT.DP][name]
                    if g_rcount != rcount or g_rcalls != rcalls or (snvs and g_snvdp != snvdp):
                        problems.append(Problem("encode:counts", "locus %s sample %s: RCOUNT %s SNVDP %s RCALLS %s; expected %s %s %s" % (locus_spec["name"], name, g_rcount, g_snvdp, g_rcalls, rcount, snvdp, rcalls)))
                        return problems
                    if snvs:
                        mean = sum(snvdp) / len(snvdp)
                        adm = {round(mean)} if abs(mean - int(mean) - 0.5) > 1e-9 else {int(mean), int(mean) + 1}
                        if g_dp != g_dp or int(g_dp) not in adm:
                            problems.append(Problem("encode:DP", "locus %s sample %s: DP %r, mean SNVDP %r" % (locus_spec["name"], name, g_dp, mean)))
                            return problems
                    # de-duplicated distributions re-expand to the same multiset of calls
                    dists, counts = data.read_dists[name], data.read_counts[name]
                    if int(np.sum(counts)) != rcount:
                        problems.append(Problem("encode:dedup_counts", "locus %s sample %s: read_counts sum %d, rows %d" % (locus_spec["name"], name, int(np.sum(counts)), rcount)))
                        return problems
                    if snvs and rcount:
                        back = Counter()
                        for d, c in zip(dists, counts):
                            call = []
                            for j in range(len(snvs)):
                                n_a = len(snvs[j]["alleles"])
                                v = d[j][:n_a]
                                if np.all(np.isnan(v)):
                                    call.append(-1)
                                else:
                                    a_ = int(np.nanargmax(v))
                                    call.append(a_)
                                    # documented encoding: called allele 1-e, every other allele e/3, non-alleles 0
                                    exp_v = [(1 - err_rate) if i == a_ else err_rate / 3 for i in range(n_a)]
                                    if any(abs(float(x) - y) > 1e-12 for x, y in zip(v, exp_v)) or np.any(d[j][n_a:] != 0):
                                        problems.append(Problem("encode:probabilities", "locus %s sample %s SNV %d: allele probabilities %s, expected %s for base error rate %r (non-alleles 0)" % (locus_spec["name"], name, j, d[j].tolist(), exp_v, err_rate)))
                                        return problems
                            back[tuple(call)] += int(c)
                        if back != Counter(calls):
                            problems.append(Problem("encode:dedup_content", "locus %s sample %s: de-duplicated distributions do not re-expand to the encoded matrix" % (locus_spec["name"], name)))
                            return problems
                    expected_fields[(locus_spec["name"], name)] = (rcount, snvdp, rcalls)

        # ---- printed FORMAT fields
        with guard(problems, "assemble_cli"):
            out, err = CLI.run_inprocess("assemble", args)
            if err is not None:
                problems.append(Problem("assemble:raised:%s" % type(err).__name__, "assemble failed on a consistent dataset: %s" % CLI.describe(err)))
                return problems
            header, samples, recs = CLI.parse_records(out)
            if len(recs) != len(spec["loci"]):
                problems.append(Problem("assemble:record_count", "%d records for %d loci" % (len(recs), len(spec["loci"]))))
                return problems
            # --region / --region-id give the same record as the corresponding --targets line
            li = cfg.get("region_locus", 0) % len(spec["loci"])
            L = spec["loci"][li]
            r_args = [a for a in args]
            ti = r_args.index("--targets")
            r_args[ti:ti + 2] = ["--region", "%s:%d-%d" % (L["contig"], L["start"], L["stop"]), "--region-id", L["name"]]
            out_r, err_r = CLI.run_inprocess("assemble", r_args)
            if err_r is not None:
                problems.append(Problem("assemble:region:raised:%s" % type(err_r).__name__, "assemble --region %s:%d-%d failed: %s" % (L["contig"], L["start"], L["stop"], CLI.describe(err_r))))
                return problems
            _, _, recs_r = CLI.parse_records(out_r)
            if len(recs_r) != 1 or recs_r[0]["line"] != recs[li]["line"]:
                problems.append(Problem("assemble:region_vs_targets", "--region %s:%d-%d gives %s but the --targets run gives %s" % (L["contig"], L["start"], L["stop"], [r_["line"][:300] for r_ in recs_r], recs[li]["line"][:300])))
                return problems
            for rec in recs:
                for name in samples:
                    rcount, snvdp, rcalls = expected_fields[(rec["ID"], name)]
                    f = rec["samples"][name]
                    exp_snvdp = ",".join(str(x) for x in snvdp) if snvdp else "."
                    if f.get("RCOUNT") != str(rcount) or f.get("RCALLS") != str(rcalls) or f.get("SNVDP") != exp_snvdp:
                        problems.append(Problem("assemble:FORMAT_counts", "record %s sample %s prints RCOUNT=%s RCALLS=%s SNVDP=%s; expected %s %s %s" % (rec["ID"], name, f.get("RCOUNT"), f.get("RCALLS"), f.get("SNVDP"), rcount, rcalls, exp_snvdp)))
                        return problems
    finally:
        shutil.rmtree(wd, ignore_errors=True)
    return problems


# ------------------------------------------------------------------ reference consistency


def check_fault(ctx, case):
    """A BAM aligned against a reference that differs from the SNV file's REF at an SNV must raise."""
    problems = []
    spec, cfg = case["spec"], case["cfg"]
    snv_i = case["fault_snv"] % max(1, len(spec["snvs"]))
    if not spec["snvs"]:
        ctx.count("fault:no_snv_skipped")
        return problems
    snv = spec["snvs"][snv_i]
    mode = case["fault_mode"]
    wd = os.path.join(common.work_dir(), "c06f")
    shutil.rmtree(wd, ignore_errors=True)
    try:
        import copy

        spec2 = copy.deepcopy(spec)
        expect_error = False
        if mode == "fasta":
            # the FASTA disagrees with the SNV file's REF
            c = [c for c in spec2["contigs"] if c["name"] == snv["contig"]][0]
            other = [b for b in "ACGT" if b != snv["alleles"][0]][0]
            # alignments keep the original reference in their MD tags: write BAMs first, then swap the FASTA
            paths = D.write_dataset(spec2, wd)
            seq = c["seq"][: snv["pos"]] + other + c["seq"][snv["pos"] + 1:]
            with open(paths["fasta"], "w") as fh:
                for cc in spec2["contigs"]:
                    fh.write(">%s\n%s\n" % (cc["name"], seq if cc["name"] == c["name"] else cc["seq"]))
            import pysam

            os.remove(paths["fasta"] + ".fai")
            pysam.faidx(paths["fasta"])
            expect_error = any(l["contig"] == snv["contig"] and l["start"] <= snv["pos"] < l["stop"] for l in spec["loci"])
        elif mode == "alignment_partial":
            # only SOME reads (typically not the first one in coordinate order) were aligned against a different base at the SNV
            other = [b for b in "ACGT" if b != snv["alleles"][0]][0]
            for locus in spec["loci"]:
                if locus["contig"] == snv["contig"] and locus["start"] <= snv["pos"] < locus["stop"]:
                    for b in spec2["bams"]:
                        k = 0
                        for r in sorted(b["reads"], key=lambda r: r["pos"]):
                            if r["contig"] == snv["contig"] and D.overlaps(r, locus["start"], locus["stop"]) and D.read_passes(r, cfg) and snv["pos"] in D.aligned_bases(r):
                                if k > 0 and (case.get("fault_bits", 0) >> (k - 1)) & 1:
                                    r["md_ref"] = {str(snv["pos"]): other}
                                    expect_error = True
                                k += 1
            paths = D.write_dataset(spec2, wd)
        else:
            # the alignments were made against a different base at the SNV
            other = [b for b in "ACGT" if b != snv["alleles"][0]][0]
            spec_alt = copy.deepcopy(spec2)
            for c in spec_alt["contigs"]:
                if c["name"] == snv["contig"]:
                    c["seq"] = c["seq"][: snv["pos"]] + other + c["seq"][snv["pos"] + 1:]
            paths = D.write_dataset(spec2, wd)
            for b in spec_alt["bams"]:
                D.write_bam(spec_alt, b, os.path.join(wd, b["name"] + ".bam"))
            for locus in spec["loci"]:
                if locus["contig"] == snv["contig"] and locus["start"] <= snv["pos"] < locus["stop"]:
                    for b in spec["bams"]:
                        for r in b["reads"]:
                            if r["contig"] == snv["contig"] and D.overlaps(r, locus["start"], locus["stop"]) and D.read_passes(r, cfg) and snv["pos"] in D.aligned_bases(r):
                                expect_error = True
        ctx.record(case, expect_error, ["fault:" + mode] + (["fault:covered"] if expect_error else []))
        if not expect_error:
            return problems
        args = ["--bam"] + paths["bams"] + ["--targets", paths["bed"], "--variants", paths["vcf"], "--reference", paths["fasta"],
                                            "--ploidy", 2, "--mcmc-steps", 40, "--mcmc-burn", 10, "--mcmc-chains", 1] + cfg_args(cfg)
        out, err = CLI.run_inprocess("assemble", args)
        if err is None:
            header, samples, recs = CLI.parse_records(out)
            problems.append(Problem("reference_mismatch:not_reported", "SNV %s:%d REF %s disagrees with the %s but assemble finished without error and printed %d records" % (snv["contig"], snv["pos"] + 1, snv["alleles"][0], "FASTA" if mode == "fasta" else ("alignment reference (MD tag)" if mode == "alignment" else "alignment reference (MD tag) of some reads that are not the first to cover it"), len(recs))))
        else:
            header, samples, recs = CLI.parse_records(out)
            bad = [r for r in recs if r["CHROM"] == snv["contig"] and r["POS"] - 1 <= snv["pos"] < int(r["INFO"].get("END", 0))]
            if bad:
                problems.append(Problem("reference_mismatch:record_emitted", "an error was raised but a record for the inconsistent locus was still printed"))
    finally:
        shutil.rmtree(wd, ignore_errors=True)
    return problems


@st.composite
def config(draw, spec):
    mapqs = sorted({r["mapq"] for b in spec["bams"] for r in b["reads"]}) or [20]
    m = draw(st.sampled_from(mapqs))
    mapq = max(0, m + draw(st.sampled_from([0, 0, 1, -1])))
    return {"mapq": mapq, "keep_dup": draw(st.booleans()), "keep_qcfail": draw(st.booleans()), "keep_supp": draw(st.booleans()),
            "rg_field": draw(st.sampled_from(["SM", "SM", "ID"])), "error_rate": draw(st.sampled_from([None, None, 0.01, 0.05])),
            "bam_form": draw(st.sampled_from(["paths", "paths", "listfile"])), "region_locus": draw(st.integers(0, 5))}


@st.composite
def dataset_case(draw):
    spec = draw(D.dataset_spec(exotic=True))
    return {"kind": "dataset", "spec": spec, "cfg": draw(config(spec))}


@st.composite
def fault_case(draw):
    spec = draw(D.dataset_spec(max_loci=2, max_reads=10, flags=True))
    return {"kind": "fault", "spec": spec, "cfg": draw(config(spec)), "fault_snv": draw(st.integers(0, 50)), "fault_mode": draw(st.sampled_from(["fasta", "alignment", "alignment_partial"])), "fault_bits": draw(st.integers(1, 255))}


def replay(ctx, case):
    return check_fault(ctx, case) if case["kind"] == "fault" else check_dataset(ctx, case)


def run(ctx):
    q = ctx.quick
    ctx.hyp("dataset", dataset_case(), check_dataset, 90 if q else 250)
    ctx.hyp("fault", fault_case(), check_fault, 60 if q else 220)
