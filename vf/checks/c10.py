"""C10 — samples are called independently; a pool equals the union of its reads."""

import copy
import os
import shutil

from hypothesis import strategies as st

from .. import common
from ..common import Problem, guard
from ..gen import cli as CLI
from ..gen import dataset as D
from ..gen import pipeline as P

PROPERTY = "C10"
RULE = (
    "hypothesis draws a dataset with 2-4 samples (unique read names across samples, several samples per BAM possible), per-sample "
    "ploidy, a permutation of the samples, a subset run (one sample alone) and a pool assignment (incl. one sample in two pools "
    "and a pool of everything); for each pool a single-sample BAM holding the union of the pooled alignments is physically "
    "written. assemble, call and call-exact are run in-process with a fixed seed for: all samples, permuted order, the sample "
    "alone, the pool file, and the merged-BAM stand-in. call/call-exact columns must be identical strings; assemble columns are "
    "compared on statistics and called haplotype SEQUENCES ('.' of the alone run may become a named allele). non-trivial = >=3 "
    "samples with a shared haplotype, or a pool of >=2 samples; distinct by decoded case"
)
ASSUMPTIONS = [
    "samples are selected with the documented '<sample><TAB><bam>' list file; read names are unique across the samples of a pool",
    "assemble columns are canonicalised by haplotype sequence because ALT numbering legitimately depends on the other samples",
    "floating point summation order (rows of the read matrix arrive in a different order in a merged BAM) is assumed not to flip an MCMC decision",
]

STATS = ["GQ", "SQ", "DP", "RCOUNT", "RCALLS", "MEC", "MECP", "GPM", "SPM", "MCI"]


@st.composite
def case_strategy(draw):
    spec = draw(D.dataset_spec(max_loci=2, max_snvs=4, max_samples=4, max_reads=12, mapq_values=(60,), flags=False, min_reads=1))
    samples = spec["samples"]
    if len(samples) < 2:
        # add a second sample by copying the read groups of the first with new names
        extra = copy.deepcopy(spec["bams"][0])
        extra["name"] = "bamX"
        for rg in extra["read_groups"]:
            rg["id"] = rg["id"] + "x"
            rg["sm"] = "S9"
        for r in extra["reads"]:
            r["rg"] = r["rg"] + "x"
            r["qname"] = r["qname"] + "x"
        spec["bams"].append(extra)
        spec["samples"] = samples = samples + ["S9"]
    # a sample without any read at one locus (its statistics there must not borrow anything from its neighbours)
    if draw(st.booleans()):
        victim = draw(st.sampled_from(samples[1:] or samples))
        locus = draw(st.sampled_from(spec["loci"]))
        for b in spec["bams"]:
            ids = {rg["id"] for rg in b["read_groups"] if rg["sm"] == victim}
            b["reads"] = [r for r in b["reads"] if not (r["rg"] in ids and r["contig"] == locus["contig"] and D.overlaps(r, locus["start"] - 2, locus["stop"] + 2))]
    ploidy = {s: draw(st.sampled_from([2, 4, 3])) for s in samples}
    perm = list(draw(st.permutations(samples)))
    alone = draw(st.sampled_from(samples))
    # pools
    mode = draw(st.sampled_from(["all", "file", "file_overlap"]))
    pools = {}
    if mode == "all":
        pools = {"POOL": list(samples)}
    else:
        k = draw(st.integers(1, len(samples) - 1))
        pools = {"PA": samples[:k], "PB": samples[k:]}
        if mode == "file_overlap":
            pools["PB"] = pools["PB"] + [samples[0]]
    pool_ploidy = {p: draw(st.sampled_from([2, 4])) for p in pools}
    return {"kind": "independence", "spec": spec, "ploidy": ploidy, "perm": perm, "alone": alone, "pool_mode": mode, "pools": pools,
            "pool_ploidy": pool_ploidy, "seed": draw(st.integers(0, 10000)), "threshold": draw(st.sampled_from([0.2, 0.2, 0.5])),
            "pool_line_order": list(draw(st.permutations(range(sum(len(v) for v in pools.values())))))}


def bam_of(spec, paths, sample):
    for b, p in zip(spec["bams"], paths["bams"]):
        if any(rg["sm"] == sample for rg in b["read_groups"]):
            return p
    raise KeyError(sample)


def column_seqs(rec, sample):
    seqs = [rec["REF"]] + rec["ALT"]
    return sorted("." if a == "." else seqs[int(a)] for a in rec["samples"][sample]["GT"].split("/"))


def compare_assemble(problems, label, rec_a, sample_a, rec_b, sample_b, allow_fill):
    """rec_a: run with fewer samples (alone); rec_b: joint.  allow_fill: '.' of a may be named in b."""
    da, db = rec_a["samples"][sample_a], rec_b["samples"][sample_b]
    for k in STATS:
        if da.get(k) != db.get(k):
            problems.append(Problem(label + ":stat", "%s:%d %s of %s is %s in one run and %s in the other" % (rec_a["CHROM"], rec_a["POS"], k, sample_a, da.get(k), db.get(k))))
            return
    # genotype likelihoods depend on the sample's own reads only: comparable whenever both runs list the same alleles
    if rec_a["ALT"] == rec_b["ALT"] and da.get("GL") != db.get("GL"):
        problems.append(Problem(label + ":GL", "%s:%d GL of %s differs between the runs although both list the same alleles: %s vs %s" % (rec_a["CHROM"], rec_a["POS"], sample_a, da.get("GL", "")[:80], db.get("GL", "")[:80])))
        return
    sa, sb = column_seqs(rec_a, sample_a), column_seqs(rec_b, sample_b)
    if sa == sb:
        return
    if allow_fill:
        named_a = [x for x in sa if x != "."]
        rest_b = list(sb)
        ok = True
        for x in named_a:
            if x in rest_b:
                rest_b.remove(x)
            else:
                ok = False
        if ok and len(rest_b) == sa.count("."):
            return
    problems.append(Problem(label + ":haplotypes", "%s:%d called haplotypes of %s differ: %s vs %s" % (rec_a["CHROM"], rec_a["POS"], sample_a, sa, sb)))


def check_case(ctx, case):
    problems = []
    spec = case["spec"]
    samples = spec["samples"]
    wd = os.path.join(common.work_dir(), "c10")
    shutil.rmtree(wd, ignore_errors=True)
    n_pooled = max(len(v) for v in case["pools"].values())
    try:
        paths = D.write_dataset(spec, wd)
        ploidy_file = P.write_map(os.path.join(wd, "ploidy.txt"), case["ploidy"])

        def bam_list(names, fname):
            path = os.path.join(wd, fname)
            with open(path, "w") as fh:
                for s in names:
                    fh.write("%s\t%s\n" % (s, bam_of(spec, paths, s)))
            return path

        def run(prog, names=None, bam_args=None, extra=(), ploidy=ploidy_file, hap=None):
            a = ["--bam"] + (bam_args if bam_args is not None else [bam_list(names, "bams_%s.txt" % "_".join(names))]) + ["--ploidy", ploidy]
            if prog == "assemble":
                a += ["--targets", paths["bed"], "--variants", paths["vcf"], "--reference", paths["fasta"], "--haplotype-posterior-threshold", case["threshold"],
                      "--report", "GL"] + P.FAST_MCMC[:-2] + ["--mcmc-seed", case["seed"]]
            else:
                a += ["--haplotypes", hap]
                if prog == "call":
                    a += P.FAST_MCMC[:-2] + ["--mcmc-seed", case["seed"]]
            out, err = P.run(prog, a + list(extra))
            if err is not None:
                problems.append(Problem("%s:raised:%s" % (prog, type(err).__name__), "%s on samples %s failed: %s" % (prog, names, CLI.describe(err))))
                return None
            return CLI.parse_records(out)

        with guard(problems, "independence"):
            joint = run("assemble", samples)
            if joint is None:
                return problems
            _, cols, jrecs = joint
            if cols != samples:
                problems.append(Problem("assemble:column_order", "columns %s for bam list order %s" % (cols, samples)))
                return problems
            hap = P.save_vcf("\n".join(joint[0] + [r["line"] for r in jrecs]) + "\n", os.path.join(wd, "haps.vcf"))
            # --- permuted order only permutes the columns
            perm = run("assemble", case["perm"])
            if perm is None:
                return problems
            if perm[1] != case["perm"]:
                problems.append(Problem("assemble:column_order", "columns %s for bam list order %s" % (perm[1], case["perm"])))
                return problems
            for ra, rb in zip(jrecs, perm[2]):
                for s in samples:
                    compare_assemble(problems, "assemble:order", ra, s, rb, s, allow_fill=False)
                if sorted(ra["ALT"]) != sorted(rb["ALT"]) or ra["REF"] != rb["REF"]:
                    problems.append(Problem("assemble:order:alts", "ALT set changes with sample order: %s vs %s" % (ra["ALT"], rb["ALT"])))
                if problems:
                    return problems
            # --- one sample alone
            alone = run("assemble", [case["alone"]])
            if alone is None:
                return problems
            for ra, rb in zip(alone[2], jrecs):
                compare_assemble(problems, "assemble:alone", ra, case["alone"], rb, case["alone"], allow_fill=True)
                if problems:
                    return problems
            # --- call / call-exact: identical column strings
            for prog in ("call", "call-exact"):
                j = run(prog, samples, hap=hap)
                p2 = run(prog, case["perm"], hap=hap)
                a1 = run(prog, [case["alone"]], hap=hap)
                if j is None or p2 is None or a1 is None:
                    return problems
                for rj, rp, ra in zip(j[2], p2[2], a1[2]):
                    for s in samples:
                        if rj["samples"][s] != rp["samples"][s]:
                            problems.append(Problem(prog + ":order", "%s:%d column of %s changes with sample order: %s vs %s" % (rj["CHROM"], rj["POS"], s, rj["samples"][s], rp["samples"][s])))
                            return problems
                    s = case["alone"]
                    if rj["samples"][s] != ra["samples"][s]:
                        problems.append(Problem(prog + ":alone", "%s:%d column of %s differs alone vs with %s: %s vs %s" % (rj["CHROM"], rj["POS"], s, [x for x in samples if x != s], ra["samples"][s], rj["samples"][s])))
                        return problems
            # --- pools vs physically merged BAMs
            pools = case["pools"]
            if case["pool_mode"] == "all":
                pool_arg = ["--sample-pool", "POOL"]
            else:
                pf = os.path.join(wd, "pools.txt")
                lines = [(m, p) for p, members in pools.items() for m in members]
                order = case.get("pool_line_order") or list(range(len(lines)))
                lines = [lines[i] for i in order if i < len(lines)]
                with open(pf, "w") as fh:
                    for m, p in lines:
                        fh.write("%s\t%s\n" % (m, p))
                pools = {}
                for m, p in lines:  # column order = order of first appearance in the file
                    pools.setdefault(p, []).append(m)
                pool_arg = ["--sample-pool", pf]
            pool_ploidy = P.write_map(os.path.join(wd, "pool_ploidy.txt"), case["pool_ploidy"])
            merged_paths = []
            for p, members in pools.items():
                reads = []
                for b in spec["bams"]:
                    ids = {rg["id"] for rg in b["read_groups"] if rg["sm"] in members}
                    for r in b["reads"]:
                        if r["rg"] in ids:
                            r2 = dict(r)
                            r2["rg"] = "rg_" + p
                            reads.append(r2)
                mb = {"name": "merged_" + p, "read_groups": [{"id": "rg_" + p, "sm": p}], "reads": reads}
                merged_paths.append(D.write_bam(spec, mb, os.path.join(wd, "merged_%s.bam" % p)))
            for prog in ("assemble", "call", "call-exact"):
                h = hap if prog != "assemble" else None
                pooled = run(prog, samples, extra=pool_arg, ploidy=pool_ploidy, hap=h)
                merged = run(prog, None, bam_args=merged_paths, ploidy=pool_ploidy, hap=h)
                if pooled is None or merged is None:
                    return problems
                if pooled[1] != list(pools) or merged[1] != list(pools):
                    problems.append(Problem(prog + ":pool_columns", "pool columns %s / merged columns %s, pools %s" % (pooled[1], merged[1], list(pools))))
                    return problems
                for rp, rm in zip(pooled[2], merged[2]):
                    for p in pools:
                        dp, dm = rp["samples"][p], rm["samples"][p]
                        # the read-derived fields are deterministic for every program
                        for k in ("DP", "RCOUNT", "RCALLS"):
                            if dp.get(k) != dm.get(k):
                                problems.append(Problem(prog + ":pool:stat", "%s:%d %s of pool %s = %s is %s but one sample holding the union of their alignments has %s" % (rp["CHROM"], rp["POS"], k, p, pools[p], dp.get(k), dm.get(k))))
                                return problems
                        if prog != "call-exact":
                            # MCMC programs: the rows of the read matrix arrive in another order in a merged BAM, which
                            # changes floating point sums and the tie-breaking of the greedy initial genotype; their
                            # sampled statistics are compared through the read multiset below, not bitwise.
                            continue
                        same_gt = dp["GT"] == dm["GT"]
                        gpm_p, gpm_m = float(dp["GPM"]) if dp["GPM"] != "." else None, float(dm["GPM"]) if dm["GPM"] != "." else None
                        if not same_gt and (gpm_p is None or gpm_m is None or abs(gpm_p - gpm_m) > 0.0011):
                            problems.append(Problem(prog + ":pool", "%s:%d pool %s = %s gives %s but one sample holding the union of their alignments gives %s" % (rp["CHROM"], rp["POS"], p, pools[p], dp, dm)))
                            return problems
                        for k in set(dp) & set(dm):
                            if k in ("GT", "MEC", "MECP") and not same_gt:
                                continue  # exact posterior tie resolved differently
                            if dp[k] == dm[k]:
                                continue
                            try:
                                a = [float(x) if x != "." else None for x in dp[k].split(",")]
                                b = [float(x) if x != "." else None for x in dm[k].split(",")]
                            except ValueError:
                                a, b = None, None
                            tol = 1.01 if k in ("GQ", "SQ") else 0.0011
                            if a is None or len(a) != len(b) or any((x is None) != (y is None) or (x is not None and abs(x - y) > tol) for x, y in zip(a, b)):
                                if same_gt or k not in ("AFP", "ACP", "AOP", "GP"):
                                    problems.append(Problem(prog + ":pool", "%s:%d field %s of pool %s = %s is %s but one sample holding the union of their alignments has %s" % (rp["CHROM"], rp["POS"], k, p, pools[p], dp[k], dm[k])))
                                    return problems
            # the pooled read matrix is the multiset union of the members' matrices (what every program infers from)
            pa = CLI.make_program("call-exact", ["--bam", bam_list(samples, "bams_all.txt")] + pool_arg + ["--ploidy", pool_ploidy, "--haplotypes", hap])
            pb = CLI.make_program("call-exact", ["--bam"] + merged_paths + ["--ploidy", pool_ploidy, "--haplotypes", hap])
            import numpy as np
            for la, lb in zip(pa.loci(), pb.loci()):
                da = pa._locus_data(la, pa.sample_bams)
                pa.encode_sample_reads(da)
                db = pb._locus_data(lb, pb.sample_bams)
                pb.encode_sample_reads(db)
                for p in pools:
                    ka = sorted((np.nan_to_num(x, nan=-1).tobytes(), int(n)) for x, n in zip(da.read_dists[p], da.read_counts[p]))
                    kb = sorted((np.nan_to_num(x, nan=-1).tobytes(), int(n)) for x, n in zip(db.read_dists[p], db.read_counts[p]))
                    if ka != kb:
                        problems.append(Problem("pool:read_multiset", "%s:%d pool %s = %s: the de-duplicated reads and counts differ from those of the union of alignments (%d vs %d distinct reads)" % (la.contig, la.start + 1, p, pools[p], len(ka), len(kb))))
                        return problems
    finally:
        shutil.rmtree(wd, ignore_errors=True)
        ctx.record(case, len(samples) >= 3 or n_pooled >= 2, ["dataset", "pool_mode=" + case["pool_mode"], "n_samples=%d" % len(samples)])
    return problems


def replay(ctx, case):
    return check_case(ctx, case)


def run(ctx):
    q = ctx.quick
    ctx.hyp("independence", case_strategy(), check_case, 45 if q else 150)
