"""C11 — genotype <-> G-field index mapping is the VCF order and a bijection.

Oracles (all independent of mchap):
  * math.comb for binomial / multiset coefficients,
  * the recursive genotype ordering printed in the VCF specification
    (for a in 0..N-1: for g in order(P-1, a+1): g + [a]) for the rank,
  * closed form rank  sum_k C(a_k + k - 1, k)  with python big ints for
    spaces too large to enumerate.
All mchap functions are called in *jitted* mode (int64 semantics matter).
"""

import math

import numpy as np
from hypothesis import strategies as st

from ..common import Problem, guard

PROPERTY = "C11"
RULE = (
    "exhaustive grids (all (n,k) with n<=N_MAX and C(n,k)<2^53; all genotypes for ploidy x "
    "alleles grid with explicit VCF-spec enumeration) plus hypothesis-drawn (ploidy<=100, "
    "alleles<=1000, N<2^53) genotypes/indices; non-trivial = coefficient outside the 100x12 "
    "table, or a genotype space with >=2 alleles and ploidy>=2; distinct by (function, arguments)"
)
ASSUMPTIONS = [
    "python math.comb and the VCF specification's recursive ordering are the reference",
    "N < 2^53 as stated by the property; alleles are non-negative and sorted ascending (callers sort)",
]
SHARDS_THOROUGH = 4

LIMIT = 2**53


def vcf_order(ploidy, n_alleles):
    """Genotype ordering as printed in the VCF specification (recursive)."""
    if ploidy == 0:
        yield ()
        return
    for a in range(n_alleles):
        for g in vcf_order(ploidy - 1, a + 1):
            yield g + (a,)


def ref_index(alleles):
    return sum(math.comb(a + k, k + 1) for k, a in enumerate(alleles))


def check_coefficients(ctx, n_max):
    from mchap import jitutils

    problems = []
    n_eval = n_nt = 0
    sample = None
    for n in range(0, n_max + 1):
        if n % ctx.nshards != ctx.shard:
            continue
        for k in range(0, n + 3):
            expect = math.comb(n, k)
            if expect >= LIMIT:
                continue
            with guard(problems, "comb(%d,%d)" % (n, k)):
                got = int(jitutils.comb(n, k))
                n_eval += 1
                outside = not (n < 100 and k < 12)
                if outside:
                    n_nt += 1
                    sample = {"kind": "comb", "n": n, "k": k, "expect": expect, "got": got}
                if got != expect:
                    problems.append(
                        Problem(
                            "comb:" + ("outside_table" if outside else "table"),
                            "comb(%d,%d) returned %d, exact value %d" % (n, k, got, expect),
                        )
                    )
                    ctx.check({"kind": "comb", "n": n, "k": k}, problems[-1:])
            # multiset coefficient: n items, k draws (n>=1)
            if n >= 1:
                expect2 = math.comb(n + k - 1, k)
                if expect2 < LIMIT:
                    with guard(problems, "comb_with_replacement(%d,%d)" % (n, k)):
                        got2 = int(jitutils.comb_with_replacement(n, k))
                        n_eval += 1
                        if not (n < 100 and k < 12):
                            n_nt += 1
                        if got2 != expect2:
                            p = Problem(
                                "comb_with_replacement:" + ("outside_table" if not (n < 100 and k < 12) else "table"),
                                "comb_with_replacement(%d,%d) returned %d, exact value %d" % (n, k, got2, expect2),
                            )
                            ctx.check({"kind": "comb_with_replacement", "n": n, "k": k}, [p])
    for p in problems:
        if ":raised:" in p.signature:
            ctx.check({"kind": "comb_raise", "label": p.signature}, [p])
    ctx.record_bulk(n_eval, n_nt, sample, {"coefficients": n_eval, "coefficients_outside_table": n_nt})


def check_space(ctx, ploidy, n_alleles):
    """Exhaustive over one (ploidy, n_alleles) genotype space."""
    from mchap import jitutils

    case = {"kind": "space", "ploidy": ploidy, "n_alleles": n_alleles}
    problems = []
    expect_n = math.comb(n_alleles + ploidy - 1, ploidy)
    order = list(vcf_order(ploidy, n_alleles))
    assert len(order) == expect_n
    with guard(problems, "space"):
        walker = np.zeros(ploidy, dtype=np.int64)
        seen = set()
        for rank, g in enumerate(order):
            arr = np.array(g, dtype=np.int64)
            idx = int(jitutils.genotype_alleles_as_index(arr))
            if idx != rank:
                problems.append(Problem("as_index:rank", "genotype %s has VCF rank %d but index %d (ploidy %d)" % (list(g), rank, idx, ploidy)))
                break
            seen.add(idx)
            back = jitutils.index_as_genotype_alleles(rank, ploidy)
            if back is None or tuple(int(x) for x in back) != g:
                problems.append(Problem("as_genotype:inverse", "index %d ploidy %d decoded to %s, expected %s" % (rank, ploidy, None if back is None else back.tolist(), list(g))))
                break
            if tuple(int(x) for x in walker) != g:
                problems.append(Problem("increment:order", "enumerator at step %d is %s, VCF order has %s" % (rank, walker.tolist(), list(g))))
                break
            # also int8 input as used by callers
            if n_alleles < 127:
                idx8 = int(jitutils.genotype_alleles_as_index(arr.astype(np.int8)))
                if idx8 != rank:
                    problems.append(Problem("as_index:int8", "int8 genotype %s index %d != %d" % (list(g), idx8, rank)))
                    break
            jitutils.increment_genotype(walker)
        else:
            if len(seen) != expect_n:
                problems.append(Problem("as_index:bijection", "only %d distinct indices for %d genotypes" % (len(seen), expect_n)))
    ctx.record_bulk(
        expect_n * 3,
        expect_n if (ploidy >= 2 and n_alleles >= 2) else 0,
        case if (ploidy, n_alleles) in ((3, 4), (2, 3)) else None,
        {"spaces": 1, "genotypes_enumerated": expect_n},
    )
    ctx.check(case, problems)


@st.composite
def large_case(draw):
    ploidy = draw(st.one_of(st.integers(1, 12), st.integers(12, 100)))
    # largest allele count with N < 2^53
    hi = 1000
    while math.comb(hi + ploidy - 1, ploidy) >= LIMIT:
        hi = hi * 3 // 4 if hi > 8 else hi - 1
    lo_bias = draw(st.booleans())
    n_alleles = draw(st.integers(max(1, (hi * 2) // 3) if lo_bias else 1, hi))
    n_total = math.comb(n_alleles + ploidy - 1, ploidy)
    mode = draw(st.sampled_from(["genotype", "index", "edge"]))
    if mode == "genotype":
        g = sorted(draw(st.lists(st.integers(0, n_alleles - 1), min_size=ploidy, max_size=ploidy)))
    elif mode == "edge":
        top = draw(st.integers(0, min(3, n_alleles - 1)))
        g = sorted([n_alleles - 1 - draw(st.integers(0, top)) for _ in range(ploidy)])
    else:
        g = None
    index = draw(st.integers(0, n_total - 1)) if g is None else None
    return {"kind": "large", "ploidy": ploidy, "n_alleles": n_alleles, "genotype": g, "index": index}


def ref_unrank(index, ploidy):
    out = [0] * ploidy
    rem = index
    for k in range(ploidy, 0, -1):
        # largest a with C(a + k - 1, k) <= rem
        a = 0
        lo, hi = 0, 1
        while math.comb(hi + k - 1, k) <= rem:
            hi *= 2
        while lo < hi:
            mid = (lo + hi + 1) // 2
            if math.comb(mid + k - 1, k) <= rem:
                lo = mid
            else:
                hi = mid - 1
        a = lo
        out[k - 1] = a
        rem -= math.comb(a + k - 1, k)
    return out


def check_large(ctx, case):
    from mchap import jitutils

    problems = []
    ploidy, n_alleles = case["ploidy"], case["n_alleles"]
    n_total = math.comb(n_alleles + ploidy - 1, ploidy)
    g = case["genotype"]
    if g is None:
        g = ref_unrank(case["index"], ploidy)
    rank = ref_index(g)
    outside = (ploidy >= 12) or (max(g) + ploidy >= 100)
    ctx.record(case, outside, ["large:outside_table"] if outside else ["large:inside_table"])
    with guard(problems, "large"):
        arr = np.array(g, dtype=np.int64)
        idx = int(jitutils.genotype_alleles_as_index(arr))
        if idx != rank:
            problems.append(Problem("as_index:large", "genotype %s: index %d, exact rank %d" % (g, idx, rank)))
            return problems
        back = jitutils.index_as_genotype_alleles(rank, ploidy)
        if [int(x) for x in back] != list(g):
            problems.append(Problem("as_genotype:large", "index %d ploidy %d decoded to %s, expected %s" % (rank, ploidy, back.tolist(), g)))
            return problems
        if rank + 1 < n_total:
            nxt = arr.copy()
            jitutils.increment_genotype(nxt)
            expect = ref_unrank(rank + 1, ploidy)
            if [int(x) for x in nxt] != expect:
                problems.append(Problem("increment:large", "successor of %s is %s, expected %s" % (g, nxt.tolist(), expect)))
    return problems


def replay(ctx, case):
    kind = case.get("kind")
    from mchap import jitutils

    if kind == "comb":
        got = int(jitutils.comb(case["n"], case["k"]))
        exp = math.comb(case["n"], case["k"])
        return [] if got == exp else [Problem("comb:replay", "comb(%d,%d)=%d expected %d" % (case["n"], case["k"], got, exp))]
    if kind == "comb_with_replacement":
        got = int(jitutils.comb_with_replacement(case["n"], case["k"]))
        exp = math.comb(case["n"] + case["k"] - 1, case["k"])
        return [] if got == exp else [Problem("comb_with_replacement:replay", "got %d expected %d" % (got, exp))]
    if kind == "space":
        sub = type(ctx)(ctx.prop, ctx.tier, ctx.seed)
        check_space(sub, case["ploidy"], case["n_alleles"])
        return [Problem(s, v["message"]) for s, v in sub.violations.items()]
    if kind == "large":
        return check_large(ctx, case)
    return []


def run(ctx):
    quick = ctx.quick
    check_coefficients(ctx, 130 if quick else 400)
    grid = []
    for ploidy in range(1, 9):
        for n_alleles in range(1, 11):
            n = math.comb(n_alleles + ploidy - 1, ploidy)
            if n <= (3000 if quick else 30000):
                grid.append((ploidy, n_alleles))
    for i, (ploidy, n_alleles) in enumerate(grid):
        if i % ctx.nshards == ctx.shard:
            check_space(ctx, ploidy, n_alleles)
    ctx.exhaustive = False  # grids are complete, the hypothesis part is sampled
    ctx.note("exhaustive_parts", "all (n,k) n<=%d with C<2^53; all genotypes of %d (ploidy,alleles) spaces" % (130 if quick else 400, len(grid)))
    ctx.hyp("large", large_case(), check_large, 1500 if quick else 20000)
