"""C17 — the pedigree inheritance model is a proper probability distribution."""

import itertools
import math

import numpy as np
from hypothesis import strategies as st

from ..common import Problem, guard
from ..ref import pedigree as RP

PROPERTY = "C17"
RULE = (
    "exhaustive grid over allele sets of size 2-3: all parent genotypes x parent ploidy {2,4,6} x (tau_p,tau_q) incl. "
    "unbalanced and clonal x lambda {0,0.25} (tau=2) x error {0,0.01,0.5,1} x frequency vectors, for founders, duos and "
    "trios; hypothesis adds 4-5 alleles, random errors/lambdas/frequencies (zeros allowed for the sums only). Each case "
    "evaluates trio_log_pmf over ALL unordered progeny genotypes (sum=1), gamete_log_pmf over all gametes (sum=1) and, with "
    "zero error and positive frequencies, positivity <=> trio_valid/duo_valid. non-trivial = unbalanced tau or lambda>0 or "
    "error in (0,1); distinct by the full parameter tuple"
)
ASSUMPTIONS = [
    "sums compared to 1 at 1e-9; positivity means log pmf > -inf",
    "validity predicate dispatched exactly as PedigreeAllelesMultiTrace.incongruence does (both unknown: valid; one unknown: duo_valid; else trio_valid)",
    "pointwise agreement with the chromosome-copy enumeration model is recorded (max_abs_model_difference) but not asserted: the property demands properness",
    "non-zero lambda only with tau=2 (the code raises otherwise, as documented)",
]
SHARDS_THOROUGH = 16


def pad(g, n):
    return list(g) + [-1] * (n - len(g))


def eval_trio(problems, case):
    """Returns (sum, max model diff, n_progeny, iff_checked)."""
    from mchap.pedigree import prior as PP
    from mchap.pedigree import validation as PV

    n_alleles = case["n_alleles"]
    pp, pq = case["parent_p"], case["parent_q"]
    tau_p, tau_q = case["tau"]
    lam_p, lam_q = case["lambda"]
    err_p, err_q = case["error"]
    freqs = case["frequencies"]
    ploidy = tau_p + tau_q
    max_ploidy = max(ploidy, len(pp) if pp else 0, len(pq) if pq else 0)
    with np.errstate(divide="ignore"):
        logf = np.log(np.array(freqs, dtype=np.float64))
    scratch_i = [np.zeros(max_ploidy, dtype=np.int64) for _ in range(7)]
    scratch_f = np.zeros(max_ploidy, dtype=np.float64)
    arr_p = np.array(pad(pp or [], max_ploidy), dtype=np.int64)
    arr_q = np.array(pad(pq or [], max_ploidy), dtype=np.int64)
    e_p = err_p if pp is not None else 1.0
    e_q = err_q if pq is not None else 1.0
    ref = RP.trio_dist(None if pp is None else tuple(pp), None if pq is None else tuple(pq), tau_p, tau_q, lam_p, lam_q, e_p, e_q, freqs)
    total = 0.0
    maxdiff = 0.0
    iff = 0
    check_iff = all(f > 0 for f in freqs) and (pp is None or err_p == 0) and (pq is None or err_q == 0)
    for g in RP.multisets(n_alleles, ploidy):
        arr = np.array(pad(g, max_ploidy), dtype=np.int64)
        lp = float(PP.trio_log_pmf(
            arr, arr_p, arr_q,
            len(pp) if pp is not None else 0, len(pq) if pq is not None else 0,
            tau_p, tau_q, lam_p, lam_q, e_p, e_q, logf,
            scratch_i[0], scratch_i[1], scratch_i[2], scratch_i[3], scratch_i[4], scratch_i[5], scratch_i[6], scratch_f,
        ))
        if lp != lp:
            problems.append(Problem("trio_log_pmf:nan", "trio_log_pmf is NaN for progeny %s in %s" % (list(g), brief(case))))
            return None
        pr = math.exp(lp) if lp > -math.inf else 0.0
        total += pr
        maxdiff = max(maxdiff, abs(pr - ref.get(tuple(g), 0.0)))
        if check_iff:
            iff += 1
            prog = np.array(g, dtype=np.int64)
            if pp is None and pq is None:
                valid = True
            elif pp is None:
                valid = bool(PV.duo_valid(prog, np.array(pq, dtype=np.int64), tau_q, lam_q))
            elif pq is None:
                valid = bool(PV.duo_valid(prog, np.array(pp, dtype=np.int64), tau_p, lam_p))
            else:
                valid = bool(PV.trio_valid(prog, np.array(pp, dtype=np.int64), np.array(pq, dtype=np.int64), tau_p, tau_q, lam_p, lam_q))
            if valid != (pr > 0):
                problems.append(Problem("validity:iff", "progeny %s: pmf=%r but validity test says %s in %s" % (list(g), pr, valid, brief(case))))
                return None
    return total, maxdiff, iff


def brief(case):
    return "parents %s x %s tau=%s lambda=%s error=%s freqs=%s" % (case["parent_p"], case["parent_q"], case["tau"], case["lambda"], case["error"], case["frequencies"])


def check_gamete(problems, parent, tau, lam, n_alleles):
    from mchap.pedigree import prior as PP

    m = len(parent)
    parent_dose = np.array([parent.count(a) for a in range(n_alleles)], dtype=np.int64)
    total = 0.0
    ref = RP.parent_gamete(tuple(parent), tau, lam)
    maxdiff = 0.0
    for g in RP.multisets(n_alleles, tau):
        dose = np.array([g.count(a) for a in range(n_alleles)], dtype=np.int64)
        lp = float(PP.gamete_log_pmf(dose, tau, parent_dose, m, lam))
        pr = math.exp(lp) if lp > -math.inf else 0.0
        total += pr
        maxdiff = max(maxdiff, abs(pr - ref.get(tuple(g), 0.0)))
    if abs(total - 1.0) > 1e-9:
        problems.append(Problem("gamete_log_pmf:sum", "gametes of parent %s tau=%d lambda=%r sum to %r" % (parent, tau, lam, total)))
    return maxdiff


def check_case(ctx, case):
    problems = []
    tau_p, tau_q = case["tau"]
    nontrivial = (tau_p != tau_q) or any(l > 0 for l in case["lambda"]) or any(0 < e < 1 for e in case["error"])
    classes = ["trio" if case["parent_p"] is not None and case["parent_q"] is not None else ("founder" if case["parent_p"] is None and case["parent_q"] is None else "duo")]
    if tau_p != tau_q:
        classes.append("unbalanced")
    if 0 in case["tau"]:
        classes.append("clonal")
    if any(l > 0 for l in case["lambda"]):
        classes.append("lambda>0")
    if any(f == 0 for f in case["frequencies"]):
        classes.append("zero_frequency")
    ctx.record(case, nontrivial, classes)
    with guard(problems, "trio_log_pmf"):
        res = eval_trio(problems, case)
        if res is not None:
            total, maxdiff, iff = res
            ctx.evaluations += len(RP.multisets(case["n_alleles"], tau_p + tau_q)) - 1
            if iff:
                ctx.count("iff_checked_progeny", iff)
            ctx.notes["max_abs_model_difference"] = max(ctx.notes.get("max_abs_model_difference", 0.0), maxdiff)
            if maxdiff > 1e-9:
                ctx.count("model_difference>1e-9")
            if abs(total - 1.0) > 1e-9:
                problems.append(Problem("trio_log_pmf:sum", "sum over progeny genotypes = %r for %s" % (total, brief(case))))
    with guard(problems, "gamete_log_pmf"):
        for parent, tau, lam in ((case["parent_p"], tau_p, case["lambda"][0]), (case["parent_q"], tau_q, case["lambda"][1])):
            if parent is not None and 0 < tau <= len(parent):
                d = check_gamete(problems, list(parent), tau, lam, case["n_alleles"])
                ctx.notes["max_abs_gamete_model_difference"] = max(ctx.notes.get("max_abs_gamete_model_difference", 0.0), d)
    return problems


def tau_pairs(ploidy_p, ploidy_q):
    """(tau_p, tau_q) with progeny ploidy in {2,4,6}; ploidy 0 = unknown parent (any tau)."""
    out = []
    for total in (2, 4, 6):
        for tp in range(0, total + 1):
            tq = total - tp
            if ploidy_p and tp > ploidy_p:
                continue
            if ploidy_q and tq > ploidy_q:
                continue
            if tp > 4 or tq > 4:
                if not (tp == 0 or tq == 0):
                    continue
            out.append((tp, tq))
    return out


def grid_cases(n_alleles, quick):
    ploidies = (0, 2, 4) if quick else (0, 2, 4, 6)
    freq_sets = [[1.0 / n_alleles] * n_alleles, ([0.5, 0.25, 0.25] if n_alleles == 3 else [0.75, 0.25])]
    errs = [(0.0, 0.0), (0.01, 0.5), (1.0, 0.0)]
    for mp in ploidies:
        for mq in ploidies:
            gens_p = [None] if mp == 0 else RP.multisets(n_alleles, mp)
            gens_q = [None] if mq == 0 else RP.multisets(n_alleles, mq)
            for tp, tq in tau_pairs(mp, mq):
                if (tp + tq) == 6 and quick and n_alleles == 3:
                    continue
                lams = [(0.0, 0.0)]
                if tp == 2 and mp:
                    lams.append((0.25, 0.0))
                if tq == 2 and mq:
                    lams.append((0.0, 0.5))
                if tp == 2 and tq == 2 and mp and mq:
                    lams.append((0.25, 0.125))
                for gp in gens_p:
                    for gq in gens_q:
                        for lam in lams:
                            for err in errs:
                                for fr in freq_sets:
                                    yield {"kind": "trio", "n_alleles": n_alleles, "parent_p": None if gp is None else list(gp),
                                           "parent_q": None if gq is None else list(gq), "tau": [tp, tq], "lambda": list(lam),
                                           "error": list(err), "frequencies": fr}


@st.composite
def random_case(draw):
    n_alleles = draw(st.integers(2, 5))
    mp = draw(st.sampled_from([0, 2, 4, 6]))
    mq = draw(st.sampled_from([0, 2, 4, 6]))
    tp, tq = draw(st.sampled_from(tau_pairs(mp, mq)))
    if n_alleles >= 4 and tp + tq == 6:
        tp, tq = draw(st.sampled_from([t for t in tau_pairs(mp, mq) if sum(t) < 6]))
    gp = None if mp == 0 else sorted(draw(st.lists(st.integers(0, n_alleles - 1), min_size=mp, max_size=mp)))
    gq = None if mq == 0 else sorted(draw(st.lists(st.integers(0, n_alleles - 1), min_size=mq, max_size=mq)))
    if mq and mp and draw(st.integers(0, 5)) == 0:
        gq, mq = list(gp), mp  # selfing-like
        if tq > mq:
            tq = mq
            tp = draw(st.sampled_from([t for t in (2 - tq, 4 - tq, 6 - tq) if 0 <= t <= mp] or [0]))
    lam_p = draw(st.sampled_from([0.0, 0.0, 0.0625, 0.5, 0.9375])) if (tp == 2 and mp) else 0.0
    lam_q = draw(st.sampled_from([0.0, 0.0, 0.0625, 0.5, 0.9375])) if (tq == 2 and mq) else 0.0
    err = [draw(st.sampled_from([0.0, 0.0, 0.01, 0.25, 0.5, 1.0])) for _ in range(2)]
    w = [draw(st.integers(0 if draw(st.integers(0, 4)) == 0 else 1, 8)) for _ in range(n_alleles)]
    if sum(w) == 0:
        w[0] = 1
    fr = [x / sum(w) for x in w]
    if tp + tq == 0:
        tq = 2
    return {"kind": "trio", "n_alleles": n_alleles, "parent_p": gp, "parent_q": gq, "tau": [tp, tq], "lambda": [lam_p, lam_q], "error": err, "frequencies": fr}


def replay(ctx, case):
    return check_case(ctx, case)


def run(ctx):
    quick = ctx.quick
    n = 0
    for n_alleles in ((2,) if quick else (2, 3)):
        for i, case in enumerate(grid_cases(n_alleles, quick)):
            if i % ctx.nshards != ctx.shard:
                continue
            if quick and i % 3 != (ctx.seed % 3):
                continue
            p = ctx.check(case, check_case(ctx, case))
            n += 1
            if p is not None and len(ctx.violations) >= 3:
                break
    ctx.note("grid_cases", n)
    ctx.exhaustive = False
    ctx.hyp("random_trio", random_case(), check_case, 1200 if quick else 6000)
