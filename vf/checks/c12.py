"""C12 — haplotype encode/decode round-trips; assemble output is valid call input."""

import os
import shutil

import numpy as np
from hypothesis import strategies as st

from .. import common
from ..common import Problem, guard
from ..gen import cli as CLI
from ..gen import dataset as D
from ..gen import pipeline as P

PROPERTY = "C12"
RULE = (
    "(a) hypothesis draws in-memory haplotype records: REF of length 1-40 over ACGT, 0-6 distinct ALTs of equal length differing "
    "at 0-8 columns (multi-allelic columns), optional SNVPOS superset / REFMASKED; LocusPrior.from_variant_record -> "
    "encode_haplotypes -> format_haplotypes must reproduce (REF,)+ALTs, alleles numbered by first appearance with REF=0, SNV "
    "positions = polymorphic columns (subset of SNVPOS). (b) generated datasets are assembled with report/threshold variants "
    "(REFMASKED, ALT-less and SNV-less records arise) and the output is fed to call and call-exact: CHROM/POS/REF/ALT identical "
    "record by record, every GT complete unless FILTER carries NOA/AF0 (then all GTs missing). non-trivial = record with a "
    "tri-allelic column and >=2 ALTs (a) / pipeline containing a REFMASKED or ALT-less record (b); distinct by decoded case"
)
ASSUMPTIONS = [
    "records are built with pysam's VariantHeader.new_record exactly as a parsed file would provide them",
    "ALT sequences are distinct from REF and from each other (duplicates are not valid VCF)",
]

BASES = "ACGT"


@st.composite
def record_case(draw):
    n = draw(st.integers(1, 40))
    ref = "".join(draw(st.lists(st.sampled_from(BASES), min_size=n, max_size=n)))
    n_cols = draw(st.integers(0, min(8, n)))
    cols = sorted(draw(st.lists(st.integers(0, n - 1), min_size=n_cols, max_size=n_cols, unique=True)))
    n_alt = draw(st.integers(0, 6))
    alts = []
    tries = 0
    while len(alts) < n_alt and tries < 30 and cols:
        tries += 1
        a = list(ref)
        k = draw(st.integers(1, len(cols)))
        for c in draw(st.lists(st.sampled_from(cols), min_size=k, max_size=k)):
            a[c] = draw(st.sampled_from([b for b in BASES if b != ref[c]]))
        a = "".join(a)
        if a != ref and a not in alts:
            alts.append(a)
    extra = sorted(set(cols) | set(draw(st.lists(st.integers(0, n - 1), max_size=3))))
    return {"kind": "record", "ref": ref, "alts": alts, "start": draw(st.integers(0, 500)), "snvpos": [c + 1 for c in extra],
            "refmasked": draw(st.integers(0, 4)) == 0}


def make_record(case):
    """Parse the record from VCF text, as mchap would read it from a file (ALT '.' allowed)."""
    import pysam

    path = os.path.join(common.work_dir(), "c12_record.vcf")
    info = []
    if case["snvpos"]:
        info.append("SNVPOS=" + ",".join(str(x) for x in case["snvpos"]))
    if case["refmasked"]:
        info.append("REFMASKED")
    with open(path, "w") as fh:
        fh.write("##fileformat=VCFv4.3\n##contig=<ID=chr1,length=100000>\n")
        fh.write('##INFO=<ID=SNVPOS,Number=.,Type=Integer,Description="x">\n')
        fh.write('##INFO=<ID=REFMASKED,Number=0,Type=Flag,Description="x">\n')
        fh.write("#CHROM\tPOS\tID\tREF\tALT\tQUAL\tFILTER\tINFO\n")
        fh.write("chr1\t%d\t.\t%s\t%s\t.\tPASS\t%s\n" % (case["start"] + 1, case["ref"], ",".join(case["alts"]) or ".", ";".join(info) or "."))
    with pysam.VariantFile(path) as vf:
        rec = next(iter(vf))
        rec_copy = rec.copy()
    return rec_copy


def check_record(ctx, case):
    from mchap.io import LocusPrior

    problems = []
    seqs = [case["ref"]] + case["alts"]
    poly = [i for i in range(len(case["ref"])) if len({s[i] for s in seqs}) > 1]
    tri = any(len({s[i] for s in seqs}) >= 3 for i in poly)
    ctx.record(case, tri and len(case["alts"]) >= 2, ["record"] + (["triallelic_column"] if tri else []) + (["no_alt"] if not case["alts"] else []) + (["no_snv"] if not poly else []))
    with guard(problems, "round_trip"):
        rec = make_record(case)
        locus = LocusPrior.from_variant_record(rec)
        enc = locus.encode_haplotypes()
        if enc.shape != (len(seqs), len(poly)):
            problems.append(Problem("encode:shape", "encoded haplotypes shape %s, expected (%d alleles, %d polymorphic columns)" % (enc.shape, len(seqs), len(poly))))
            return problems
        positions = [p - case["start"] for p in locus.positions]
        if positions != poly:
            problems.append(Problem("encode:snv_positions", "recovered SNV columns %s, polymorphic columns %s" % (positions, poly)))
            return problems
        if not set(p + 1 for p in positions) <= set(case["snvpos"]):
            problems.append(Problem("encode:snvpos_subset", "recovered %s not a subset of SNVPOS %s" % (positions, case["snvpos"])))
        # numbering: first appearance with REF = 0
        for j, col in enumerate(poly):
            order = []
            for s in seqs:
                if s[col] not in order:
                    order.append(s[col])
            if tuple(locus.alleles[j]) != tuple(order):
                problems.append(Problem("encode:allele_numbering", "column %d alleles %s, first-appearance order %s" % (col, locus.alleles[j], order)))
                return problems
            if [int(x) for x in enc[:, j]] != [order.index(s[col]) for s in seqs]:
                problems.append(Problem("encode:integer_alleles", "column %d encoded %s expected %s" % (col, enc[:, j].tolist(), [order.index(s[col]) for s in seqs])))
                return problems
        if len(poly) and not np.all(enc[0] == 0):
            problems.append(Problem("encode:ref_not_zero", "reference haplotype encoded as %s" % enc[0].tolist()))
        back = locus.format_haplotypes(enc) if len(poly) else [locus.sequence for _ in seqs]
        if list(back) != seqs:
            problems.append(Problem("round_trip:sequences", "decoded %s, original %s" % (list(back), seqs)))
        if locus.sequence != case["ref"] or tuple(locus.alts) != tuple(case["alts"]):
            problems.append(Problem("round_trip:ref_alts", "locus sequence/alts differ from record"))
        if bool(locus.mask_reference_allele) != bool(case["refmasked"]):
            problems.append(Problem("round_trip:refmasked", "mask flag %s vs %s" % (locus.mask_reference_allele, case["refmasked"])))
    return problems


# ------------------------------------------------------------------ pipeline


@st.composite
def pipeline_case(draw):
    spec = draw(D.dataset_spec(max_loci=3, max_snvs=4, max_samples=3, max_reads=15, mapq_values=(60,), flags=False, min_reads=0, exotic=True))
    ploidy = {s: draw(st.sampled_from([2, 2, 4, 3])) for s in spec["samples"]}
    thr = draw(st.sampled_from([0.2, 0.05, 0.9, 0.99, 1.0]))
    return {"kind": "pipeline", "spec": spec, "ploidy": ploidy, "threshold": thr, "seed": draw(st.integers(1, 10000)),
            "report": draw(st.sampled_from([[], ["AFP"], ["GP", "AOP"]]))}


def check_pipeline(ctx, case):
    problems = []
    spec = case["spec"]
    wd = os.path.join(common.work_dir(), "c12")
    shutil.rmtree(wd, ignore_errors=True)
    special = 0
    try:
        paths = D.write_dataset(spec, wd)
        kw = dict(ploidy=case["ploidy"], directory=wd)
        rep = (["--report"] + case["report"]) if case["report"] else []
        with guard(problems, "pipeline"):
            out, err = P.run("assemble", P.assemble_args(paths, extra=["--haplotype-posterior-threshold", case["threshold"], "--mcmc-seed", case["seed"]] + rep, **kw))
            if err is not None:
                problems.append(Problem("assemble:raised:%s" % type(err).__name__, "assemble failed: %s" % CLI.describe(err)))
                return problems
            _, samples, a_recs = CLI.parse_records(out)
            special = sum(1 for r in a_recs if "REFMASKED" in r["INFO"] or not r["ALT"])
            hap = P.save_vcf(out, os.path.join(wd, "haps.vcf"))
            for name in ("call", "call-exact"):
                out2, err2 = P.run(name, P.call_args(paths, hap, extra=rep + (["--mcmc-seed", case["seed"]] if name == "call" else []), mcmc=(name == "call"), **kw))
                if err2 is not None:
                    problems.append(Problem("%s:rejects_assemble_output:%s" % (name, type(err2).__name__), "%s failed on assemble output (threshold %r, report %s): %s" % (name, case["threshold"], case["report"], CLI.describe(err2))))
                    return problems
                _, samples2, c_recs = CLI.parse_records(out2)
                if len(c_recs) != len(a_recs):
                    problems.append(Problem(name + ":record_count", "%d records from %d haplotype records" % (len(c_recs), len(a_recs))))
                    return problems
                key = lambda r: (r["CHROM"], r["POS"])
                for a, c in zip(sorted(a_recs, key=key), sorted(c_recs, key=key)):
                    if (a["CHROM"], a["POS"], a["REF"], a["ALT"]) != (c["CHROM"], c["POS"], c["REF"], c["ALT"]):
                        problems.append(Problem(name + ":alleles_changed", "assemble %s:%d %s %s became %s:%d %s %s" % (a["CHROM"], a["POS"], a["REF"], a["ALT"], c["CHROM"], c["POS"], c["REF"], c["ALT"])))
                        return problems
                    filt = set(c["FILTER"].split(";"))
                    gts = [c["samples"][s]["GT"] for s in samples2]
                    if filt & {"NOA", "AF0"}:
                        if any(x != "." for g in gts for x in g.split("/")):
                            problems.append(Problem(name + ":filtered_record_has_call", "record %s:%d has FILTER %s but GTs %s" % (c["CHROM"], c["POS"], c["FILTER"], gts)))
                            return problems
                    else:
                        if any(x == "." for g in gts for x in g.split("/")):
                            problems.append(Problem(name + ":incomplete_genotype", "record %s:%d (FILTER %s, REFMASKED %s, ALT %s) has an incomplete GT %s" % (c["CHROM"], c["POS"], c["FILTER"], "REFMASKED" in c["INFO"], c["ALT"], gts)))
                            return problems
                        if "REFMASKED" in c["INFO"] and any(x == "0" for g in gts for x in g.split("/")):
                            problems.append(Problem(name + ":masked_reference_called", "record %s:%d is REFMASKED but a GT uses allele 0: %s" % (c["CHROM"], c["POS"], gts)))
                            return problems
    finally:
        shutil.rmtree(wd, ignore_errors=True)
        ctx.record(case, special > 0, ["pipeline"] + (["refmasked_or_altless_record"] if special else []))
    return problems


def replay(ctx, case):
    return check_pipeline(ctx, case) if case["kind"] == "pipeline" else check_record(ctx, case)


def run(ctx):
    q = ctx.quick
    ctx.hyp("records", record_case(), check_record, 1500 if q else 10000)
    ctx.hyp("pipeline", pipeline_case(), check_pipeline, 35 if q else 120)
