"""C20 — atomize emits the per-SNV projection of every haplotype record."""

import os
import shutil

import numpy as np
from hypothesis import strategies as st

from .. import common
from ..common import Problem, guard
from ..gen import cli as CLI
from ..gen import dataset as D
from ..gen import pipeline as P
from ..ref import vcfparse as V

PROPERTY = "C20"
RULE = (
    "(i) hypothesis writes haplotype VCFs directly: 1-4 records with 0-4 ALTs, SNVPOS incl. sites that are monomorphic among "
    "the listed haplotypes and the empty list, 1-3 samples of mixed ploidy, GTs with '.' alleles, with/without ACP, AFP, SNVDP, "
    "NOA-like records with missing SQ; (ii) haplotype VCFs produced by assemble / call / call-exact on generated datasets "
    "(report and threshold variants). Oracle: independent per-site projection (REF/ALT by first appearance, phased GT, PS, AC, "
    "ACP/DS marginalised and normalised to ploidy, DP from SNVDP) plus the strict parser and pysam. non-trivial = record with a "
    "monomorphic site, or no ALT, or a '.' allele; distinct by decoded case"
)
ASSUMPTIONS = [
    "a site without an alternative base may be omitted or printed with ALT '.' (both admitted, as the property states)",
    "ACP/DS are compared within 0.0015 (inputs and outputs are both printed with 3 decimals)",
    "INFO ACP is only compared when every sample carries ACP or AFP",
]

BASES = "ACGT"


@st.composite
def vcf_case(draw):
    n_samples = draw(st.sampled_from([1, 2, 3, 3, 5, 6]))
    ploidies = [draw(st.sampled_from([2, 4, 3, 6])) for _ in range(n_samples)]
    homo_bias = draw(st.booleans())  # many copies of one ALT: allele counts of 10, 20 occur
    fields = {"ACP": draw(st.booleans()), "AFP": draw(st.booleans()), "SNVDP": draw(st.booleans())}
    recs = []
    pos = 10
    for r in range(draw(st.integers(1, 4))):
        n = draw(st.integers(3, 10))
        ref = "".join(draw(st.lists(st.sampled_from(BASES), min_size=n, max_size=n)))
        n_cols = draw(st.integers(0, min(4, n)))
        cols = sorted(draw(st.lists(st.integers(0, n - 1), min_size=n_cols, max_size=n_cols, unique=True)))
        n_alt = draw(st.integers(0, 4)) if cols else 0
        alts = []
        tries = 0
        while len(alts) < n_alt and tries < 30:
            tries += 1
            a = list(ref)
            for c in draw(st.lists(st.sampled_from(cols), min_size=1, max_size=len(cols))):
                a[c] = draw(st.sampled_from([b for b in BASES if b != ref[c]]))
            a = "".join(a)
            if a != ref and a not in alts:
                alts.append(a)
        n_all = len(alts) + 1
        refmasked = draw(st.integers(0, 5)) == 0
        noa = refmasked and not alts
        samples = []
        for p in ploidies:
            if noa:
                gt = [None] * p
            else:
                lo = 1 if refmasked else 0
                if homo_bias and n_all - 1 >= max(lo, 1) and draw(st.integers(0, 3)) > 0:
                    gt = [n_all - 1] * p
                else:
                    gt = sorted(draw(st.integers(lo, n_all - 1)) for _ in range(p)) if n_all - 1 >= lo else [None] * p
                if draw(st.integers(0, 5)) == 0 and p > 1:
                    k = draw(st.integers(1, p - 1))
                    gt = gt[: p - k] + [None] * k
            w = [draw(st.integers(0, 8)) for _ in range(n_all)]
            if refmasked:
                w[0] = 0
            if sum(w) == 0:
                w[-1] = 1
            afp = [round(x / sum(w), 3) for x in w]
            under = draw(st.sampled_from([1.0, 1.0, 0.8]))  # AFP may sum to less than one (excluded haplotypes)
            afp = [round(x * under, 3) for x in afp]
            samples.append({"gt": gt, "afp": afp, "acp": [round(x * p, 3) for x in afp], "snvdp": [draw(st.integers(0, 30)) for _ in cols],
                            "sq": None if noa else draw(st.integers(0, 60))})
        recs.append({"pos": pos, "ref": ref, "alts": alts, "snvpos": [c + 1 for c in cols], "refmasked": refmasked, "noa": noa, "samples": samples,
                     "id": draw(st.sampled_from([".", "L%d" % r]))})
        pos += n + draw(st.integers(1, 10))
    return {"kind": "vcf", "ploidies": ploidies, "fields": fields, "records": recs}


def render(case):
    lines = ["##fileformat=VCFv4.3", "##contig=<ID=chr1,length=100000>",
             '##FILTER=<ID=PASS,Description="All filters passed">', '##FILTER=<ID=NOA,Description="No observed alleles at locus">',
             '##INFO=<ID=SNVPOS,Number=.,Type=Integer,Description="Relative (1-based) positions of SNVs within haplotypes">',
             '##INFO=<ID=REFMASKED,Number=0,Type=Flag,Description="Reference allele is masked">',
             '##INFO=<ID=END,Number=1,Type=Integer,Description="End position on CHROM">',
             '##FORMAT=<ID=GT,Number=1,Type=String,Description="Genotype">',
             '##FORMAT=<ID=SQ,Number=1,Type=Integer,Description="Genotype support quality">',
             '##FORMAT=<ID=ACP,Number=R,Type=Float,Description="Posterior allele counts">',
             '##FORMAT=<ID=AFP,Number=R,Type=Float,Description="Posterior mean allele frequencies">',
             '##FORMAT=<ID=SNVDP,Number=.,Type=Integer,Description="Read depth at each SNV position">']
    names = ["S%d" % i for i in range(len(case["ploidies"]))]
    lines.append("#CHROM\tPOS\tID\tREF\tALT\tQUAL\tFILTER\tINFO\tFORMAT\t" + "\t".join(names))
    keys = ["GT", "SQ"] + [k for k in ("ACP", "AFP", "SNVDP") if case["fields"][k]]
    for r in case["records"]:
        info = ["END=%d" % (r["pos"] + len(r["ref"]) - 1), "SNVPOS=" + (",".join(str(x) for x in r["snvpos"]) or ".")]
        if r["refmasked"]:
            info.append("REFMASKED")
        cols = []
        for s in r["samples"]:
            v = ["/".join("." if a is None else str(a) for a in s["gt"]), "." if s["sq"] is None else str(s["sq"])]
            if case["fields"]["ACP"]:
                v.append("." if r["noa"] else ",".join(fmt(x) for x in s["acp"]))
            if case["fields"]["AFP"]:
                v.append("." if r["noa"] else ",".join(fmt(x) for x in s["afp"]))
            if case["fields"]["SNVDP"]:
                v.append(",".join(str(x) for x in s["snvdp"]) or ".")
            cols.append(":".join(v))
        lines.append("\t".join(["chr1", str(r["pos"]), r["id"], r["ref"], ",".join(r["alts"]) or ".", ".", "NOA" if r["noa"] else "PASS", ";".join(info), ":".join(keys)] + cols))
    return "\n".join(lines) + "\n"


def fmt(x):
    s = ("%.3f" % x).rstrip("0").rstrip(".")
    return s or "0"


def project(records_parsed, samples):
    """Independent projection.  records_parsed: list from CLI.parse_records of the INPUT.
    Returns dict (chrom, pos) -> expected line description."""
    out = {}
    for r in records_parsed:
        snvpos = [] if r["INFO"].get("SNVPOS") in (None, ".", True) else [int(x) for x in r["INFO"]["SNVPOS"].split(",")]
        seqs = [r["REF"]] + r["ALT"]
        for j, k in enumerate(snvpos):
            bases = []
            for s in seqs:
                if s[k - 1] not in bases:
                    bases.append(s[k - 1])
            hap_site = [bases.index(s[k - 1]) for s in seqs]
            exp = {"REF": bases[0], "ALT": bases[1:], "PS": r["POS"], "samples": {}, "record": (r["CHROM"], r["POS"]), "monomorphic": len(bases) == 1}
            ac = [0] * len(bases)
            acp_tot = [0.0] * len(bases)
            acp_ok = True
            dp_tot = 0
            dp_ok = True
            for s in samples:
                d = r["samples"][s]
                gt = d["GT"].replace("|", "/").split("/")
                proj = ["." if a == "." else str(hap_site[int(a)]) for a in gt]
                for a in proj:
                    if a != ".":
                        ac[int(a)] += 1
                ploidy = len(gt)
                counts = None
                if d.get("ACP") not in (None, "."):
                    counts = [x or 0.0 for x in V.floats(d["ACP"])]
                elif d.get("AFP") not in (None, "."):
                    counts = [(x or 0.0) * ploidy for x in V.floats(d["AFP"])]
                site = None
                if counts is not None and len(counts) == len(seqs):
                    site = [0.0] * len(bases)
                    for h, c in enumerate(counts):
                        site[hap_site[h]] += c
                    tot = sum(site)
                    site = [x / tot * ploidy for x in site] if tot > 0 else None
                if site is None:
                    acp_ok = False
                else:
                    acp_tot = [a + b for a, b in zip(acp_tot, site)]
                dp = None
                if d.get("SNVDP") not in (None, "."):
                    v = V.floats(d["SNVDP"])
                    if j < len(v) and v[j] is not None:
                        dp = int(v[j])
                if dp is None:
                    dp_ok = False
                else:
                    dp_tot += dp
                exp["samples"][s] = {"GT": proj, "DS": None if site is None else site[1:], "DP": dp}
            exp["AC"] = ac[1:]
            exp["ACP"] = acp_tot if acp_ok else None
            exp["DP"] = dp_tot if dp_ok else None
            out[(r["CHROM"], r["POS"] + k - 1)] = exp
    return out


def check_atomized(problems, label, input_text, out_text, workdir):
    import pysam

    _, samples, inp = CLI.parse_records(input_text)
    expected = project(inp, samples)
    header, recs = CLI.split_vcf(out_text)
    meta, hp = V.parse_header(header)
    for h in hp:
        problems.append(Problem(label + ":header", h))
    if meta["samples"] != samples:
        problems.append(Problem(label + ":samples", "output samples %s input %s" % (meta["samples"], samples)))
        return 0
    seen = set()
    for line in recs:
        rec, pr = V.check_record(line, meta)
        for x in pr[:2]:
            problems.append(Problem(label + ":strict", "%s | line: %s" % (x, line[:300])))
        if rec is None or pr:
            return 0
        key = (rec["CHROM"], rec["POS"])
        if key in seen:
            problems.append(Problem(label + ":duplicate_site", "two lines for %s:%d" % key))
            return 0
        seen.add(key)
        if key not in expected:
            problems.append(Problem(label + ":unexpected_site", "line at %s:%d does not correspond to any SNVPOS of the input" % key))
            return 0
        e = expected[key]
        if rec["REF"] != e["REF"] or rec["ALT"] != e["ALT"]:
            problems.append(Problem(label + ":alleles", "site %s:%d REF/ALT %s/%s, expected %s/%s (first appearance among the listed haplotypes)" % (key[0], key[1], rec["REF"], rec["ALT"], e["REF"], e["ALT"])))
            return 0
        if rec["INFO"].get("PS") != str(e["PS"]):
            problems.append(Problem(label + ":PS", "site %s:%d PS=%s, haplotype record POS %d" % (key[0], key[1], rec["INFO"].get("PS"), e["PS"])))
        if e["ALT"]:
            ac = V.floats(rec["INFO"].get("AC", "."))
            if [int(x or 0) for x in ac] != e["AC"]:
                problems.append(Problem(label + ":AC", "site %s:%d AC=%s expected %s" % (key[0], key[1], rec["INFO"].get("AC"), e["AC"])))
        if e["ACP"] is not None:
            acp = V.floats(rec["INFO"].get("ACP", "."))
            if len(acp) != len(e["ACP"]) or any(a is None or abs(a - b) > 0.0015 * len(samples) + 1e-9 for a, b in zip(acp, e["ACP"])):
                problems.append(Problem(label + ":INFO_ACP", "site %s:%d ACP=%s expected %s" % (key[0], key[1], rec["INFO"].get("ACP"), [round(x, 4) for x in e["ACP"]])))
        if e["DP"] is not None and rec["INFO"].get("DP") not in (str(e["DP"]), "%d.0" % e["DP"]):
            problems.append(Problem(label + ":INFO_DP", "site %s:%d DP=%s expected %s" % (key[0], key[1], rec["INFO"].get("DP"), e["DP"])))
        for s in samples:
            d = rec["samples"][s]
            if "|" not in d["GT"] and len(e["samples"][s]["GT"]) > 1:
                problems.append(Problem(label + ":GT_not_phased", "sample %s GT %s is not phased" % (s, d["GT"])))
            if d["GT"].split("|") != e["samples"][s]["GT"]:
                problems.append(Problem(label + ":GT", "site %s:%d sample %s GT %s, projection of the haplotype GT is %s" % (key[0], key[1], s, d["GT"], "|".join(e["samples"][s]["GT"]))))
                return 0
            ds = e["samples"][s]["DS"]
            if ds is not None and e["ALT"]:
                got = V.floats(d.get("DS", "."))
                if len(got) != len(ds) or any(a is None or abs(a - b) > 0.0015 + 1e-9 for a, b in zip(got, ds)):
                    problems.append(Problem(label + ":DS", "site %s:%d sample %s DS=%s expected %s" % (key[0], key[1], s, d.get("DS"), [round(x, 4) for x in ds])))
            if e["samples"][s]["DP"] is not None and d.get("DP") not in (str(e["samples"][s]["DP"]), "%d.0" % e["samples"][s]["DP"]):
                problems.append(Problem(label + ":FORMAT_DP", "site %s:%d sample %s DP=%s expected %s" % (key[0], key[1], s, d.get("DP"), e["samples"][s]["DP"])))
    for key, e in expected.items():
        if key not in seen and not e["monomorphic"]:
            problems.append(Problem(label + ":missing_site", "no line for polymorphic site %s:%d of haplotype record %s" % (key[0], key[1], e["record"])))
            return 0
    path = os.path.join(workdir, "atomized.vcf")
    with open(path, "w") as fh:
        fh.write(out_text)
    try:
        with pysam.VariantFile(path) as vf:
            n = sum(1 for _ in vf)
        if n != len(recs):
            problems.append(Problem(label + ":pysam_count", "pysam read %d of %d lines" % (n, len(recs))))
    except Exception as e:
        problems.append(Problem(label + ":pysam_rejects", "pysam cannot read the atomized output: %r" % (e,)))
    return len(recs)


def check_vcf(ctx, case):
    problems = []
    wd = os.path.join(common.work_dir(), "c20")
    os.makedirs(wd, exist_ok=True)
    text = render(case)
    mono = any(len({s[k - 1] for s in [r["ref"]] + r["alts"]}) == 1 for r in case["records"] for k in r["snvpos"])
    noalt = any(not r["alts"] for r in case["records"])
    dot = any(a is None for r in case["records"] for s in r["samples"] for a in s["gt"])
    ctx.record(case, mono or noalt or dot, ["vcf"] + (["monomorphic_site"] if mono else []) + (["no_alt_record"] if noalt else []) + (["missing_allele_in_gt"] if dot else []) + (["no_snvpos"] if any(not r["snvpos"] for r in case["records"]) else []))
    path = os.path.join(wd, "in.vcf")
    with open(path, "w") as fh:
        fh.write(text)
    with guard(problems, "atomize"):
        out, err = CLI.run_inprocess("atomize", [path])
        if err is not None:
            problems.append(Problem("atomize:rejects_record_shape:%s" % type(err).__name__, "atomize failed on a valid haplotype VCF (%s): %s" % (", ".join(x for x, b in (("monomorphic SNV", mono), ("ALT-less record", noalt), ("'.' allele", dot)) if b) or "plain", CLI.describe(err))))
            return problems
        n = check_atomized(problems, "atomize", text, out, wd)
        ctx.count("atomized_lines_checked", n)
    return problems


@st.composite
def pipeline_case(draw):
    spec = draw(D.dataset_spec(max_loci=3, max_snvs=4, max_samples=3, max_reads=12, mapq_values=(60,), flags=False, min_reads=0))
    ploidy = {s: draw(st.sampled_from([2, 4, 3])) for s in spec["samples"]}
    return {"kind": "pipeline", "spec": spec, "ploidy": ploidy, "threshold": draw(st.sampled_from([0.2, 0.9, 0.99])), "seed": draw(st.integers(1, 10000)),
            "report": draw(st.sampled_from([[], ["ACP", "SNVDP"], ["AFP"], ["FORMAT/ACP", "FORMAT/AFP", "FORMAT/SNVDP", "GP"]]))}


def check_pipeline(ctx, case):
    problems = []
    spec = case["spec"]
    wd = os.path.join(common.work_dir(), "c20p")
    shutil.rmtree(wd, ignore_errors=True)
    special = False
    try:
        paths = D.write_dataset(spec, wd)
        kw = dict(ploidy=case["ploidy"], directory=wd)
        rep = (["--report"] + case["report"]) if case["report"] else []
        outs = {}
        out, err = P.run("assemble", P.assemble_args(paths, extra=["--haplotype-posterior-threshold", case["threshold"], "--mcmc-seed", case["seed"]] + rep, **kw))
        if err is not None:
            problems.append(Problem("assemble:raised:%s" % type(err).__name__, CLI.describe(err)))
            return problems
        outs["assemble"] = out
        hap = P.save_vcf(out, os.path.join(wd, "haps.vcf"))
        for name in ("call", "call-exact"):
            o, e = P.run(name, P.call_args(paths, hap, extra=rep + (["--mcmc-seed", case["seed"]] if name == "call" else []), mcmc=(name == "call"), **kw))
            if e is None:
                outs[name] = o
        for name, text in outs.items():
            _, _, recs = CLI.parse_records(text)
            if any(not r["ALT"] or "REFMASKED" in r["INFO"] for r in recs):
                special = True
            path = os.path.join(wd, name + ".in.vcf")
            with open(path, "w") as fh:
                fh.write(text)
            with guard(problems, "atomize_" + name):
                o, e = CLI.run_inprocess("atomize", [path])
                if e is not None:
                    problems.append(Problem("atomize:rejects_%s_output:%s" % (name, type(e).__name__), "atomize failed on %s output (threshold %r report %s): %s" % (name, case["threshold"], case["report"], CLI.describe(e))))
                    return problems
                n = check_atomized(problems, "atomize_" + name, text, o, wd)
                ctx.count("atomized_lines_checked", n)
            if problems:
                return problems
    finally:
        shutil.rmtree(wd, ignore_errors=True)
        ctx.record(case, special, ["pipeline"] + (["pipeline:altless_or_refmasked"] if special else []))
    return problems


def replay(ctx, case):
    return check_pipeline(ctx, case) if case["kind"] == "pipeline" else check_vcf(ctx, case)


def run(ctx):
    q = ctx.quick
    ctx.hyp("vcf", vcf_case(), check_vcf, 500 if q else 2500)
    ctx.hyp("pipeline", pipeline_case(), check_pipeline, 25 if q else 100)
