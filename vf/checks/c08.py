"""C08 — determinism: records depend only on inputs and seed, not on cores/order/history."""

import copy
import os
import shutil
from concurrent.futures import ThreadPoolExecutor

import numpy as np
from hypothesis import strategies as st

from .. import common
from ..common import Problem, guard
from ..gen import cli as CLI
from ..gen import dataset as D
from ..gen import pipeline as P
from ..gen import calling as GC
from ..gen import reads as G

PROPERTY = "C08"
RULE = (
    "(a,b) hypothesis draws a dataset with 3-7 loci, worker counts 1-6 (more workers than loci included), a permutation and a "
    "subset of the targets / haplotype records, a seed, and a fault variant in which the alignments of one locus (any position) "
    "contradict the variant reference; /venv/bin/mchap assemble, call and call-pedigree are run as SUBPROCESSES (in parallel) "
    "and their stdout / exit status compared. (c) in-process histories: generated operation lists mixing 'call locus i with "
    "program p', sampler fits (DenovoMCMC / CallingMCMC / PedigreeCallingMCMC), and consumption of numpy / numba random "
    "numbers; every (operation, seed) must return exactly its first-seen result. non-trivial = comparison across >=2 different "
    "core counts with >=3 loci (a), failing locus not in first position (b), history with a foreign fit or RNG consumption "
    "between two executions of the same operation (c); distinct by decoded case"
)
ASSUMPTIONS = [
    "headers are compared after removing ##fileDate and ##commandline",
    "OS scheduling of worker and writer processes is sampled (several core counts, repeats), not controlled",
    "a subprocess exceeding 300 s is a harness timeout (inconclusive), never a violation",
]


def strip_header(lines):
    return [l for l in lines if not (l.startswith("##fileDate") or l.startswith("##commandline"))]


def run_many(jobs):
    """jobs: list of (key, program, args).  Runs subprocesses in parallel; returns dict key -> (rc, stdout, stderr)."""
    out = {}

    def one(job):
        key, prog, args = job[:3]
        env = job[3] if len(job) > 3 else None
        try:
            return key, CLI.run_subprocess(prog, args, timeout=300, env=env)
        except Exception as e:  # timeout
            return key, (None, "", repr(e))

    with ThreadPoolExecutor(max_workers=min(12, max(1, len(jobs)))) as ex:
        for key, res in ex.map(one, jobs):
            out[key] = res
    return out


@st.composite
def process_case(draw):
    spec = draw(D.dataset_spec(min_loci=3, max_loci=7, max_snvs=3, max_samples=2, max_reads=10, mapq_values=(60,), flags=False, min_reads=2, paired=False,
                               multi_rg=False))
    n = len(spec["loci"])
    cores = sorted(set([1] + [draw(st.integers(2, 6)) for _ in range(2)]))
    return {"kind": "process", "spec": spec, "cores": cores, "perm": list(draw(st.permutations(range(n)))),
            "subset": sorted(draw(st.lists(st.integers(0, n - 1), min_size=1, max_size=n, unique=True))),
            "seed": draw(st.sampled_from([0, 0, 1, 42]) if draw(st.booleans()) else st.integers(0, 10000)), "fault_locus": draw(st.integers(0, n - 1)), "fault_cores": draw(st.sampled_from([1, 2, 3])),
            "empty_first": draw(st.integers(0, 2)) == 0}


def write_bed(path, loci):
    with open(path, "w") as fh:
        for l in loci:
            fh.write("%s\t%d\t%d\t%s\n" % (l["contig"], l["start"], l["stop"], l["name"]))
    return path


def check_process(ctx, case):
    problems = []
    spec = case["spec"]
    if case.get("empty_first"):
        # the first sample has no reads at all: its fit consumes random numbers like any other
        spec = copy.deepcopy(spec)
        first = spec["bams"][0]["read_groups"][0]["sm"]
        for b in spec["bams"]:
            sm = {rg["id"]: rg["sm"] for rg in b["read_groups"]}
            b["reads"] = [r for r in b["reads"] if sm[r["rg"]] != first]
    n = len(spec["loci"])
    wd = os.path.join(common.work_dir(), "c08")
    shutil.rmtree(wd, ignore_errors=True)
    fault_pos = case["fault_locus"]
    try:
        paths = D.write_dataset(spec, wd)
        mcmc = ["--mcmc-steps", 80, "--mcmc-burn", 20, "--mcmc-chains", 2, "--mcmc-seed", case["seed"]]
        base = ["--bam"] + paths["bams"] + ["--variants", paths["vcf"], "--reference", paths["fasta"], "--ploidy", 2] + mcmc
        bed_perm = write_bed(os.path.join(wd, "perm.bed"), [spec["loci"][i] for i in case["perm"]])
        bed_sub = write_bed(os.path.join(wd, "sub.bed"), [spec["loci"][i] for i in case["subset"]])
        jobs = []
        for c in case["cores"]:
            jobs.append((("assemble", "cores", c), "assemble", base + ["--targets", paths["bed"], "--cores", c]))
        jobs.append((("assemble", "repeat", 0), "assemble", base + ["--targets", paths["bed"], "--cores", case["cores"][-1]]))
        jobs.append((("assemble", "perm", 0), "assemble", base + ["--targets", bed_perm, "--cores", case["cores"][-1]]))
        jobs.append((("assemble", "subset", 0), "assemble", base + ["--targets", bed_sub, "--cores", 1]))
        # a single target with several cores (fewer loci than workers)
        bed_one = write_bed(os.path.join(wd, "one.bed"), [spec["loci"][case["subset"][0]]])
        jobs.append((("assemble", "single_target", case["cores"][-1]), "assemble", base + ["--targets", bed_one, "--cores", case["cores"][-1]]))
        # fault: alignments of one locus contradict the variant reference
        fl = spec["loci"][fault_pos]
        fsnvs = D.locus_snvs(spec, fl)
        covered = None
        for s in fsnvs:
            for b in spec["bams"]:
                for r in b["reads"]:
                    if r["contig"] == fl["contig"] and D.overlaps(r, fl["start"], fl["stop"]) and s["pos"] in D.aligned_bases(r):
                        covered = s
        if covered is not None:
            spec_alt = copy.deepcopy(spec)
            other = [x for x in "ACGT" if x != covered["alleles"][0]][0]
            for c in spec_alt["contigs"]:
                if c["name"] == covered["contig"]:
                    c["seq"] = c["seq"][: covered["pos"]] + other + c["seq"][covered["pos"] + 1:]
            fdir = os.path.join(wd, "fault")
            os.makedirs(fdir, exist_ok=True)
            fbams = [D.write_bam(spec_alt, b, os.path.join(fdir, b["name"] + ".bam")) for b in spec_alt["bams"]]
            fbase = ["--bam"] + fbams + ["--variants", paths["vcf"], "--reference", paths["fasta"], "--ploidy", 2] + mcmc
            for c in sorted({1, case["fault_cores"]}):
                jobs.append((("assemble", "fault", c), "assemble", fbase + ["--targets", paths["bed"], "--cores", c]))
        # separate runs of one command may see different string-hash seeds
        jobs = [j + ({"PYTHONHASHSEED": str(1 + 7 * i)},) for i, j in enumerate(jobs)]
        res = run_many(jobs)
        ref_rc, ref_out, ref_err = res[("assemble", "cores", 1)]
        if ref_rc is None:
            ctx.count("subprocess_timeout_inconclusive")
            return problems
        if ref_rc != 0:
            problems.append(Problem("assemble:single_core_failed", "exit %s: %s" % (ref_rc, ref_err[-500:])))
            return problems
        ref_header, ref_recs = CLI.split_vcf(ref_out)
        by_locus = {}
        for l in ref_recs:
            by_locus.setdefault(l.split("\t")[2], []).append(l)
        if sorted(by_locus) != sorted(x["name"] for x in spec["loci"]) or any(len(v) != 1 for v in by_locus.values()):
            problems.append(Problem("assemble:loci_once", "single core run emitted loci %s for targets %s" % (sorted(by_locus), [x["name"] for x in spec["loci"]])))
            return problems
        for key, (rc, out, err) in sorted(res.items(), key=lambda kv: str(kv[0])):
            if rc is None:
                ctx.count("subprocess_timeout_inconclusive")
                continue
            header, recs = CLI.split_vcf(out)
            kind = key[1]
            if kind == "fault":
                if rc == 0:
                    problems.append(Problem("fault:exit_status_zero", "locus %s (position %d of %d) has alignments contradicting the variant reference but --cores %d exits 0 with %d records" % (fl["name"], fault_pos, n, key[2], len(recs))))
                    return problems
                for l in recs:
                    if l.split("\t")[2] == fl["name"]:
                        problems.append(Problem("fault:failing_locus_emitted", "a record for the failing locus %s was printed (--cores %d)" % (fl["name"], key[2])))
                        return problems
                    if l.count("\t") != ref_recs[0].count("\t") or l.split("\t")[2] not in by_locus:
                        problems.append(Problem("fault:line_not_intact", "--cores %d printed a damaged line: %r" % (key[2], l[:200])))
                        return problems
                continue
            if rc != 0:
                problems.append(Problem("assemble:nonzero_exit", "%s exits %s: %s" % (key, rc, err[-400:])))
                return problems
            if strip_header(header) != strip_header(ref_header):
                problems.append(Problem("assemble:header_differs", "%s header differs from the single core header beyond date/command line" % (key,)))
                return problems
            expect = ref_recs if kind != "subset" else [by_locus[spec["loci"][i]["name"]][0] for i in case["subset"]]
            if kind == "single_target":
                expect = [by_locus[spec["loci"][case["subset"][0]]["name"]][0]]
            if sorted(recs) != sorted(expect):
                bad = sorted(set(recs) ^ set(expect))[:2]
                problems.append(Problem("assemble:records_differ:" + kind, "%s: record lines differ from the single-core run (same inputs and seed); first differing lines: %s" % (key, [b[:300] for b in bad])))
                return problems
            if len(recs) != len(set(recs)):
                problems.append(Problem("assemble:duplicate_lines", "%s printed a locus twice" % (key,)))
                return problems
        # ---------------- call and call-pedigree on the assemble output (records = loci)
        hap = P.save_vcf(ref_out, os.path.join(wd, "haps.vcf"))
        jobs2 = []
        for prog2 in ("call", "call-pedigree"):
            base2 = ["--bam"] + paths["bams"] + ["--haplotypes", hap, "--ploidy", 2] + mcmc
            if prog2 == "call-pedigree":
                # pedigree with members that were not sequenced (no BAM): grandparents GA, GB, GC of the first sample
                ped = {"GA": [".", "."], "GB": [".", "."], "GC": ["GA", "GB"]}
                for s in spec["samples"]:
                    ped[s] = [".", "."]
                ped[spec["samples"][0]] = ["GC", "GB"]
                if len(spec["samples"]) > 1:
                    ped[spec["samples"][1]] = [spec["samples"][0], "."]
                base2 += ["--sample-parents", P.write_map(os.path.join(wd, "ped.txt"), ped)]
            for i, c in enumerate(case["cores"]):
                jobs2.append(((prog2, "cores", c), prog2, base2 + ["--cores", c], {"PYTHONHASHSEED": str(3 + 11 * i)}))
            jobs2.append(((prog2, "repeat", 0), prog2, base2 + ["--cores", 1], {"PYTHONHASHSEED": "97"}))
        res2 = run_many(jobs2)
        for prog2 in ("call", "call-pedigree"):
            rc1, out1, err1 = res2[(prog2, "cores", 1)]
            if rc1 is None:
                ctx.count("subprocess_timeout_inconclusive")
                continue
            if rc1 != 0:
                problems.append(Problem(prog2 + ":single_core_failed", "exit %s: %s" % (rc1, err1[-500:])))
                return problems
            h1, r1 = CLI.split_vcf(out1)
            if len(r1) != n:
                problems.append(Problem(prog2 + ":record_count", "%d records for %d haplotype records" % (len(r1), n)))
                return problems
            for key, (rc, out, err) in res2.items():
                if key[0] != prog2:
                    continue
                if rc is None:
                    ctx.count("subprocess_timeout_inconclusive")
                    continue
                h, r = CLI.split_vcf(out)
                if rc != 0 or sorted(r) != sorted(r1) or strip_header(h) != strip_header(h1):
                    bad = sorted(set(r) ^ set(r1))[:2]
                    hdiff = [x for x in strip_header(h) if x not in strip_header(h1)][:1]
                    problems.append(Problem(prog2 + ":records_differ", "%s (exit %s): output differs from --cores 1 with the same inputs and seed: %s %s" % (key, rc, [b[:300] for b in bad], [x[:200] for x in hdiff])))
                    return problems
    finally:
        shutil.rmtree(wd, ignore_errors=True)
        ctx.record(case, len(case["cores"]) >= 2 and n >= 3, ["process", "n_loci=%d" % n] + (["fault_not_first"] if fault_pos > 0 else ["fault_first"]) + (["first_sample_without_reads"] if case.get("empty_first") else []))
        ctx.evaluations += 10
    return problems


# ------------------------------------------------------------------ in-process history


@st.composite
def history_case(draw):
    spec = draw(D.dataset_spec(min_loci=2, max_loci=3, max_snvs=3, max_samples=2, max_reads=10, mapq_values=(60,), flags=False, min_reads=2, paired=False, multi_rg=False))
    fits = []
    for _ in range(2):
        fits.append(draw(GC.calling_instance(max_haps=4, max_ploidy=3, max_states=100)))
    n_ops = draw(st.integers(4, 14))
    ops = []
    for _ in range(n_ops):
        k = draw(st.sampled_from(["locus", "locus", "fit_call", "fit_assemble", "numpy", "numba", "fit_pedigree"]))
        if k == "locus":
            ops.append([k, draw(st.sampled_from(["assemble", "call"])), draw(st.integers(0, len(spec["loci"]) - 1))])
        elif k.startswith("fit"):
            ops.append([k, draw(st.integers(0, 1)), draw(st.integers(0, 1))])  # instance, read set
        else:
            ops.append([k, draw(st.integers(1, 7))])
    return {"kind": "history", "spec": spec, "fits": fits, "ops": ops, "seed": draw(st.sampled_from([0, 0, 1, 42]) if draw(st.booleans()) else st.integers(0, 10000))}


def check_history(ctx, case):
    from mchap.assemble.mcmc import DenovoMCMC
    from mchap.calling.classes import CallingMCMC
    from mchap.pedigree.classes import PedigreeCallingMCMC
    from mchap import jitutils
    import numba

    problems = []
    spec = case["spec"]
    wd = os.path.join(common.work_dir(), "c08h")
    shutil.rmtree(wd, ignore_errors=True)
    foreign_between = False
    try:
        paths = D.write_dataset(spec, wd)
        mcmc = ["--mcmc-steps", 60, "--mcmc-burn", 20, "--mcmc-chains", 2, "--mcmc-seed", case["seed"]]
        a_args = ["--bam"] + paths["bams"] + ["--targets", paths["bed"], "--variants", paths["vcf"], "--reference", paths["fasta"], "--ploidy", 2] + mcmc
        with guard(problems, "history"):
            out, err = P.run("assemble", a_args)
            if err is not None:
                problems.append(Problem("assemble:raised:%s" % type(err).__name__, CLI.describe(err)))
                return problems
            hap = P.save_vcf(out, os.path.join(wd, "haps.vcf"))
            progs = {"assemble": CLI.make_program("assemble", a_args),
                     "call": CLI.make_program("call", ["--bam"] + paths["bams"] + ["--haplotypes", hap, "--ploidy", 2] + mcmc)}
            loci = {k: list(p.loci()) for k, p in progs.items()}

            @numba.njit
            def burn(n):
                s = 0.0
                for _ in range(n):
                    s += np.random.random()
                return s

            seen = {}
            models = {}
            last_key = None
            since = {}
            for op in case["ops"]:
                if op[0] == "locus":
                    key = ("locus", op[1], op[2])
                    res = progs[op[1]].call_locus(loci[op[1]][op[2]], progs[op[1]].sample_bams)
                elif op[0] in ("fit_call", "fit_assemble", "fit_pedigree"):
                    inst = case["fits"][op[1]]
                    R_arr, C_arr, H, f = GC.arrays(inst)
                    readset = op[2] if len(op) > 2 else 0
                    if readset == 1:
                        # a second, different read set for the same model (same haplotypes / ploidy)
                        R_arr = np.ascontiguousarray(R_arr[::-1][: max(1, len(R_arr) - 1)])
                        C_arr = np.ascontiguousarray((C_arr[::-1] + 1)[: len(R_arr)])
                    key = (op[0], op[1], readset)

                    def build(kind):
                        if kind == "fit_call":
                            return CallingMCMC(ploidy=inst["ploidy"], haplotypes=H, frequencies=f, inbreeding=inst["inbreeding"], steps=30, chains=2, random_seed=case["seed"])
                        if kind == "fit_assemble":
                            return DenovoMCMC(ploidy=inst["ploidy"], n_alleles=inst["n_alleles"], inbreeding=inst["inbreeding"], steps=30, chains=2, random_seed=case["seed"], temperatures=(0.5, 1.0))
                        return PedigreeCallingMCMC(sample_ploidy=np.array([2, 2]), sample_inbreeding=np.zeros(2), sample_parents=np.array([[-1, -1], [0, -1]]),
                                                   gamete_tau=np.array([[1, 1], [1, 1]]), gamete_lambda=np.zeros((2, 2)), gamete_error=np.full((2, 2), 0.01),
                                                   haplotypes=H, steps=30, annealing=10, chains=2, random_seed=case["seed"])

                    def fit(model, kind):
                        if kind == "fit_pedigree":
                            tr = model.fit(np.stack([R_arr, R_arr]), np.stack([C_arr, C_arr]))
                            return tr.genotypes.tobytes()
                        tr = model.fit(R_arr, C_arr)
                        return (tr.genotypes.tobytes(), tr.llks.tobytes())

                    # the same model object is reused for every fit of this instance (whatever the reads were before)...
                    mkey = (op[0], op[1])
                    if mkey not in models:
                        models[mkey] = build(op[0])
                    res = fit(models[mkey], op[0])
                    # ... and must give what a freshly built model gives
                    fresh = fit(build(op[0]), op[0])
                    if res != fresh:
                        problems.append(Problem("history:reused_model_differs_from_fresh:" + op[0], "a %s model object that was fitted before (history %s) gives a different trace than a freshly constructed one for the same reads and seed" % (op[0][4:], case["ops"])))
                        return problems
                elif op[0] == "numpy":
                    np.random.random(op[1])
                    np.random.shuffle(np.arange(5))
                    for k in since:
                        since[k] = True
                    continue
                else:
                    burn(op[1])
                    for k in since:
                        since[k] = True
                    continue
                if key in seen:
                    if since.get(key):
                        foreign_between = True
                    if res != seen[key]:
                        problems.append(Problem("history:result_depends_on_history:" + key[0], "operation %s returned a different result the second time (operations in between: %s)" % (key, case["ops"])))
                        return problems
                else:
                    seen[key] = res
                for k in list(since) + [key]:
                    since[k] = (k != key) or False
                since[key] = False
                for k in since:
                    if k != key:
                        since[k] = True
    finally:
        shutil.rmtree(wd, ignore_errors=True)
        ctx.record(case, foreign_between, ["history"] + (["repeat_after_foreign_work"] if foreign_between else []))
    return problems


def replay(ctx, case):
    return check_process(ctx, case) if case["kind"] == "process" else check_history(ctx, case)


SHARDS_THOROUGH = 4


def run(ctx):
    q = ctx.quick
    ctx.hyp("process", process_case(), check_process, 4 if q else 12, shrink=not q)
    ctx.hyp("history", history_case(), check_history, 15 if q else 80)
