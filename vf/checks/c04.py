"""C04 — read likelihood: documented mixture semantics and symmetries."""

import math

import numpy as np
from hypothesis import strategies as st

from ..common import Problem, guard
from ..gen import reads as G
from ..ref import models as R

PROPERTY = "C04"
RULE = (
    "hypothesis draws read tensors (0-8 reads x 0-6 SNVs x 2-4 alleles, whole-position gaps, occasional "
    "partial NaN, exact zeros, counts 1-5 or None, extra zero-count rows), genotypes of ploidy 1-6, "
    "rearrangement index vectors, intervals (incl. empty/full), haplotype tables + allele vectors; "
    "non-trivial = >=2 reads AND >=2 distinct haplotypes AND (a gap, weighted counts, or a non-identity "
    "rearrangement on a non-empty interval); distinct by hash of the decoded case"
)
ASSUMPTIONS = [
    "reference formula sum_r c_r*log(mean_h prod_j p) coded in pure python (vf/ref/models.py)",
    "float64 agreement tolerance 1e-9 relative / 1e-12 absolute; -inf must match exactly",
    "a zero count is only generated on reads with strictly positive probability (0*log(0) is undefined)",
]

RTOL = 1e-9
ATOL = 1e-12


def close(a, b):
    if a == b:
        return True
    if math.isinf(a) or math.isinf(b) or a != a or b != b:
        return False
    return abs(a - b) <= ATOL + RTOL * max(abs(a), abs(b))


@st.composite
def case_strategy(draw):
    n_base = draw(st.integers(0, 6))
    max_allele = draw(st.integers(2, 4))
    n_alleles = [draw(st.integers(2, max_allele)) for _ in range(n_base)]
    reads, counts = draw(G.read_set(n_alleles, max_allele=max_allele, max_reads=8, allow_zero=True,
                                    allow_partial_nan=True, max_count=5))
    ploidy = draw(st.integers(1, 6))
    genotype = draw(G.genotype_matrix(ploidy, n_alleles))
    idx = [draw(st.integers(0, ploidy - 1)) for _ in range(ploidy)]
    if draw(st.booleans()):
        idx = list(draw(st.permutations(range(ploidy))))
    a = draw(st.integers(0, n_base))
    b = draw(st.integers(a, n_base))
    interval = draw(st.sampled_from([None, [a, b]]))
    # haplotype table for the calling / pedigree wrappers
    n_haps = draw(st.integers(1, 5))
    haps = [[draw(st.integers(0, n - 1)) for n in n_alleles] for _ in range(n_haps)]
    alleles = [draw(st.integers(0, n_haps - 1)) for _ in range(ploidy)]
    n_pad = draw(st.integers(0, 3))
    hperm = list(draw(st.permutations(range(ploidy))))
    rperm = list(draw(st.permutations(range(len(reads)))))
    return {
        "kind": "llk", "n_alleles": n_alleles, "max_allele": max_allele, "reads": reads, "counts": counts,
        "genotype": genotype, "indices": idx, "interval": interval, "haplotypes": haps, "alleles": alleles,
        "n_pad": n_pad, "hperm": hperm, "rperm": rperm, "py_func": draw(st.integers(0, 3)) == 0,
        "zero_count": [draw(st.integers(0, 5)) == 0 for _ in reads] if draw(st.booleans()) else None,
        "float32": draw(st.integers(0, 4)) == 0,
    }


def check_case(ctx, case):
    from mchap.assemble import likelihood as AL
    from mchap.calling import likelihood as CL
    from mchap.pedigree import likelihood as PL
    from mchap import jitutils

    problems = []
    n_alleles, max_allele = case["n_alleles"], case["max_allele"]
    n_base = len(n_alleles)
    reads, counts = case["reads"], case["counts"]
    # a count of zero = the read was not observed; only placed on reads whose probability is strictly positive
    zc = case.get("zero_count")
    has_zero_count = False
    if zc and any(zc):
        counts = list(counts) if counts is not None else [1] * len(reads)
        for r, flag in enumerate(zc):
            if flag and not any(v == 0.0 for cell in reads[r] for v in cell if v is not None):
                counts[r] = 0
                has_zero_count = True
    genotype = case["genotype"]
    ploidy = len(genotype)
    R_arr = G.reads_array(reads, n_base, max_allele)
    if case.get("float32"):
        # single-precision tensor: the reference is evaluated on exactly the same (rounded) probabilities
        R_arr = R_arr.astype(np.float32)
        reads = [[[None if v != v else float(v) for v in cell] for cell in read] for read in R_arr.tolist()]
    C_arr = G.counts_array(counts, len(reads))
    g_arr = np.array(genotype, dtype=np.int8).reshape(ploidy, n_base)
    idx = np.array(case["indices"], dtype=np.int64)
    interval = None if case["interval"] is None else (int(case["interval"][0]), int(case["interval"][1]))

    has_gap = any(all(v is None for v in cell) for read in reads for cell in read)
    distinct = len({tuple(h) for h in genotype})
    nonid = list(case["indices"]) != list(range(ploidy)) and (interval is None or interval[1] > interval[0]) and n_base > 0
    inside = interval is not None and 0 < interval[0] < interval[1] < n_base
    nontrivial = len(reads) >= 2 and distinct >= 2 and (has_gap or counts is not None or nonid)
    classes = []
    if has_gap:
        classes.append("gap")
    if counts is not None:
        classes.append("weighted")
    if has_zero_count:
        classes.append("zero_count_read")
    if case.get("float32"):
        classes.append("float32_tensor")
    if nonid:
        classes.append("nonidentity_rearrangement")
    if inside:
        classes.append("interval_strictly_inside")
    if any(v == 0.0 for read in reads for j, cell in enumerate(read) for v in cell[: n_alleles[j]]):
        classes.append("zero_probability_allele")
    ctx.record(case, nontrivial, classes)

    expect = R.log_likelihood(reads, genotype, counts)

    with guard(problems, "log_likelihood"):
        got = float(AL.log_likelihood(R_arr, g_arr, read_counts=C_arr))
        if not close(got, expect):
            problems.append(Problem("llk:reference", "log_likelihood=%r reference=%r" % (got, expect)))
        if case["py_func"]:
            with np.errstate(all="ignore"):
                got_py = float(AL.log_likelihood.py_func(R_arr, g_arr, read_counts=C_arr))
            if not close(got_py, got):
                problems.append(Problem("llk:py_func", "py_func=%r jitted=%r" % (got_py, got)))
        # haplotype order
        hp = case["hperm"]
        got_h = float(AL.log_likelihood(R_arr, np.ascontiguousarray(g_arr[hp]), read_counts=C_arr))
        if not close(got_h, got):
            problems.append(Problem("llk:haplotype_order", "permuted haplotypes %r vs %r" % (got_h, got)))
        # read order
        rp = case["rperm"]
        if len(rp):
            got_r = float(AL.log_likelihood(np.ascontiguousarray(R_arr[rp]), g_arr,
                                            read_counts=None if C_arr is None else np.ascontiguousarray(C_arr[rp])))
            if not close(got_r, got):
                problems.append(Problem("llk:read_order", "permuted reads %r vs %r" % (got_r, got)))
        # count k == k identical reads
        if counts is not None:
            rep = np.repeat(np.arange(len(reads)), counts)
            got_e = float(AL.log_likelihood(np.ascontiguousarray(R_arr[rep]), g_arr, read_counts=None))
            if not close(got_e, got):
                problems.append(Problem("llk:count_vs_duplicates", "expanded %r vs counted %r" % (got_e, got)))
            ones = float(AL.log_likelihood(np.ascontiguousarray(R_arr[rep]), g_arr, read_counts=np.ones(len(rep), dtype=np.int64)))
            if not close(ones, got):
                problems.append(Problem("llk:count_vs_duplicates", "expanded with unit counts %r vs counted %r" % (ones, got)))

    with guard(problems, "structural_change"):
        g_new = g_arr.copy()
        jitutils.structural_change(g_new, idx, interval=interval)
        # reference rearrangement
        lo, hi = (0, n_base) if interval is None else interval
        exp_g = [list(row) for row in genotype]
        for h in range(ploidy):
            for j in range(lo, hi):
                exp_g[h][j] = genotype[case["indices"][h]][j]
        if g_new.tolist() != exp_g:
            problems.append(Problem("structural_change:result", "structural_change gave %s expected %s" % (g_new.tolist(), exp_g)))
        exp_sc = R.log_likelihood(reads, exp_g, counts)
        got_sc = float(AL.log_likelihood_structural_change(R_arr, g_arr, idx, interval=interval, read_counts=C_arr))
        if not close(got_sc, exp_sc):
            problems.append(Problem("llk_structural:reference", "log_likelihood_structural_change=%r, likelihood of rearranged genotype=%r" % (got_sc, exp_sc)))
        got_sc_c, _ = AL.log_likelihood_structural_change_cached(R_arr, g_arr, idx, interval=interval, read_counts=C_arr, cache=None)
        if not close(float(got_sc_c), exp_sc):
            problems.append(Problem("llk_structural:uncached_wrapper", "%r vs %r" % (got_sc_c, exp_sc)))

    with guard(problems, "alleles_wrappers"):
        haps = np.array(case["haplotypes"], dtype=np.int8).reshape(len(case["haplotypes"]), n_base)
        alleles = np.array(case["alleles"], dtype=np.int64)
        exp_a = R.log_likelihood(reads, [case["haplotypes"][a] for a in case["alleles"]], counts)
        cnt = C_arr if C_arr is not None else np.ones(len(reads), dtype=np.int64)
        got_a = float(CL.log_likelihood_alleles(R_arr, cnt, haps, alleles))
        if not close(got_a, exp_a):
            problems.append(Problem("llk_alleles:reference", "calling log_likelihood_alleles=%r reference=%r" % (got_a, exp_a)))
        got_ac = float(CL.log_likelihood_alleles_cached(R_arr, cnt, haps, alleles, cache=None))
        if not close(got_ac, exp_a):
            problems.append(Problem("llk_alleles:uncached_wrapper", "%r vs %r" % (got_ac, exp_a)))
        # pedigree wrapper with zero-count padding rows (rows of NaN as call-pedigree pads)
        n_pad = case["n_pad"]
        pad = np.full((n_pad, n_base, max_allele), np.nan)
        R_pad = np.concatenate([R_arr, pad]) if n_pad else R_arr
        c_pad = np.concatenate([cnt, np.zeros(n_pad, dtype=np.int64)]) if n_pad else cnt
        got_p = float(PL.log_likelihood_alleles_cached(R_pad, c_pad, haps, 0, np.sort(alleles), cache=None))
        if not close(got_p, exp_a):
            problems.append(Problem("llk_pedigree:padding", "pedigree wrapper with %d zero-count rows=%r reference=%r" % (n_pad, got_p, exp_a)))
    return problems


def replay(ctx, case):
    return check_case(ctx, case)


def warm():
    from hypothesis import find  # noqa

    ctx = type("X", (), {"record": lambda *a, **k: None})()
    check_case(ctx, {
        "kind": "llk", "n_alleles": [2], "max_allele": 2, "reads": [[[0.9, 0.1]]], "counts": [1],
        "genotype": [[0]], "indices": [0], "interval": None, "haplotypes": [[0]], "alleles": [0],
        "n_pad": 0, "hperm": [0], "rperm": [0], "py_func": False})


def run(ctx):
    ctx.hyp("llk", case_strategy(), check_case, 3000 if ctx.quick else 20000)
