"""Option -> sampler parameter wiring (sub-check shared by C01, C02, C18).

The properties speak about the posterior "for any ploidy, inbreeding coefficient, prior
frequencies, temperature ladder, gamete ploidies ...": the kernels are checked exactly in
cNN.py; this sub-check closes the gap between the command line and the kernels by running
the program in-process with the sampler class replaced by a recorder and comparing what the
sampler receives with what the user specified (generated option files).
"""

import os
import shutil

import numpy as np
from hypothesis import strategies as st

from .. import common
from ..common import Problem, guard
from ..gen import cli as CLI
from ..gen import dataset as D
from ..gen import pipeline as P


@st.composite
def wiring_case(draw, program):
    spec = draw(D.dataset_spec(max_loci=2, max_snvs=4, max_samples=3, max_reads=10, mapq_values=(60,), flags=False, min_reads=1))
    samples = spec["samples"]
    even = program == "call-pedigree"
    ploidy = {s: draw(st.sampled_from([2, 4] if even else [2, 3, 4, 6])) for s in samples}
    inbreeding = {s: draw(st.sampled_from([0.0, 0.05, 0.1, 0.3, 0.5])) for s in samples}
    c = {"kind": "wiring", "program": program, "spec": spec, "ploidy": ploidy, "inbreeding": inbreeding,
         "steps": draw(st.integers(30, 60)), "burn": draw(st.integers(5, 20)), "chains": draw(st.integers(1, 3)), "seed": draw(st.integers(0, 9999)),
         "threshold": draw(st.sampled_from([0.05, 0.2]))}
    if program == "assemble":
        c["temperatures"] = {s: sorted(set(draw(st.lists(st.sampled_from([0.1, 0.25, 0.5, 0.75]), max_size=3)))) for s in samples}
        c["fix"] = draw(st.sampled_from([0.999, 0.9, 1.0]))
        c["probs"] = [draw(st.sampled_from([0.0, 0.25, 0.5, 1.0])) for _ in range(3)]
        c["cache"] = draw(st.sampled_from([-1, 0, 100]))
    if program in ("call", "call-pedigree"):
        c["prior"] = draw(st.booleans())
        c["zero_pick"] = draw(st.sampled_from([None, 0, 1, 2, 3]))
    if program == "call-pedigree":
        ped, tau, ibd, err = {}, {}, {}, {}
        for i, s in enumerate(samples):
            par = [".", "."]
            m = ploidy[s]
            opts = [(m // 2, m // 2)]
            for j in range(2):
                if i > 0 and draw(st.booleans()):
                    par[j] = draw(st.sampled_from(samples[:i]))
            # unbalanced gametes where the parents can supply them
            cand = [(a, m - a) for a in range(0, m + 1)
                    if (par[0] == "." or a <= ploidy[par[0]]) and (par[1] == "." or m - a <= ploidy[par[1]])]
            t = draw(st.sampled_from(cand)) if cand and draw(st.booleans()) else (opts[0] if opts[0] in cand else (cand[0] if cand else opts[0]))
            ped[s] = par
            tau[s] = list(t)
            ibd[s] = [draw(st.sampled_from([0.0, 0.1, 0.25])) if t[0] == 2 else 0.0, draw(st.sampled_from([0.0, 0.1, 0.25])) if t[1] == 2 else 0.0]
            err[s] = [draw(st.sampled_from([0.01, 0.05, 0.2])), draw(st.sampled_from([0.01, 0.05, 0.2]))]
        c.update({"pedigree": ped, "tau": tau, "ibd": ibd, "error": err})
    return c


def close(a, b):
    return abs(float(a) - float(b)) <= 1e-9


def check_wiring(ctx, case):
    problems = []
    spec = case["spec"]
    samples = spec["samples"]
    program = case["program"]
    wd = os.path.join(common.work_dir(), "wiring")
    shutil.rmtree(wd, ignore_errors=True)
    log = []
    try:
        paths = D.write_dataset(spec, wd)
        kw = dict(ploidy=case["ploidy"], inbreeding=case["inbreeding"], directory=wd)
        mcmc = ["--mcmc-steps", case["steps"], "--mcmc-burn", case["burn"], "--mcmc-chains", case["chains"], "--mcmc-seed", case["seed"]]
        a_extra = ["--haplotype-posterior-threshold", case["threshold"], "--report", "INFO/AFP"]
        if program == "assemble":
            tfile = os.path.join(wd, "temps.txt")
            with open(tfile, "w") as fh:
                for s in samples:
                    if case["temperatures"][s]:
                        fh.write("%s\t%s\n" % (s, "\t".join(repr(t) for t in case["temperatures"][s])))
            a_extra += ["--mcmc-temperatures", tfile, "--mcmc-fix-homozygous", case["fix"], "--mcmc-recombination-step-probability", case["probs"][0],
                        "--mcmc-partial-dosage-step-probability", case["probs"][1], "--mcmc-dosage-step-probability", case["probs"][2],
                        "--mcmc-llk-cache-threshold", case["cache"]]
        a_args = P.common_args(paths, **kw) + ["--targets", paths["bed"], "--variants", paths["vcf"], "--reference", paths["fasta"]] + mcmc + a_extra
        with guard(problems, "wiring"):
            if program == "assemble":
                import mchap.application.assemble as APP

                orig = APP.DenovoMCMC

                def rec(**k):
                    log.append(k)
                    return orig(**k)

                try:
                    APP.DenovoMCMC = rec
                    out, err = P.run("assemble", a_args)
                finally:
                    APP.DenovoMCMC = orig
                if err is not None:
                    problems.append(Problem("assemble:raised:%s" % type(err).__name__, CLI.describe(err)))
                    return problems
                i = 0
                for locus in spec["loci"]:
                    n_alleles = [len(s_["alleles"]) for s_ in D.locus_snvs(spec, locus)]
                    for s in samples:
                        k = log[i]
                        i += 1
                        exp_t = sorted(case["temperatures"][s])
                        if not exp_t or exp_t[-1] != 1.0:
                            exp_t = exp_t + [1.0]
                        exp = {"ploidy": case["ploidy"][s], "inbreeding": case["inbreeding"][s], "steps": case["steps"], "chains": case["chains"],
                               "fix_homozygous": case["fix"], "recombination_step_probability": case["probs"][0],
                               "partial_dosage_step_probability": case["probs"][1], "dosage_step_probability": case["probs"][2],
                               "random_seed": case["seed"], "llk_cache_threshold": case["cache"]}
                        for key, v in exp.items():
                            if key not in k or not close(k[key], v):
                                problems.append(Problem("wiring:assemble:" + key, "locus %s sample %s: the sampler received %s=%r but the user specified %r" % (locus["name"], s, key, k.get(key), v)))
                                return problems
                        if list(k["n_alleles"]) != n_alleles:
                            problems.append(Problem("wiring:assemble:n_alleles", "locus %s: n_alleles %s, SNV file gives %s" % (locus["name"], list(k["n_alleles"]), n_alleles)))
                            return problems
                        if [float(t) for t in k["temperatures"]] != exp_t:
                            problems.append(Problem("wiring:assemble:temperatures", "sample %s: temperatures %s, temperature file gives %s" % (s, list(k["temperatures"]), exp_t)))
                            return problems
                return problems
            # ---- call / call-pedigree use the assemble output as haplotypes
            out, err = P.run("assemble", a_args)
            if err is not None:
                problems.append(Problem("assemble:raised:%s" % type(err).__name__, CLI.describe(err)))
                return problems
            if case.get("prior") and case.get("zero_pick") is not None:
                # user-supplied prior with a zero entry: that allele must not reach the sampler
                lines = []
                for l in out.splitlines():
                    if l and not l.startswith("#"):
                        c = l.split("\t")
                        n_all = 1 + (0 if c[4] == "." else len(c[4].split(",")))
                        vec = ["0.25"] * n_all
                        if n_all > 1:
                            vec[1 + case["zero_pick"] % (n_all - 1)] = "0"
                            # a tiny but positive prior is not a zero prior: that allele stays in the sampler
                            vec[(1 + (case["zero_pick"] + 1) % (n_all - 1)) if n_all > 2 else 0] = "1e-09"
                        c[7] = ";".join([kv for kv in c[7].split(";") if not kv.startswith("AFP=")] + ["AFP=" + ",".join(vec)])
                        l = "\t".join(c)
                    lines.append(l)
                out = "\n".join(lines) + "\n"
            hap = P.save_vcf(out, os.path.join(wd, "haps.vcf"))
            _, _, hrecs = CLI.parse_records(out)
            extra = list(mcmc)
            if case.get("prior"):
                extra += ["--prior-frequencies", "AFP"]
            if program == "call":
                import mchap.application.call as APP

                orig = APP.CallingMCMC
                name = "CallingMCMC"
            else:
                import mchap.application.call_pedigree as APP

                orig = APP.PedigreeCallingMCMC
                name = "PedigreeCallingMCMC"
                extra += ["--sample-parents", P.write_map(os.path.join(wd, "ped.txt"), case["pedigree"]),
                          "--gamete-ploidy", P.write_map(os.path.join(wd, "tau.txt"), case["tau"]),
                          "--gamete-ibd", P.write_map(os.path.join(wd, "ibd.txt"), case["ibd"]),
                          "--gamete-error", P.write_map(os.path.join(wd, "err.txt"), case["error"])]
                kw = dict(kw, inbreeding=None)

            def rec(**k):
                log.append(k)
                return orig(**k)

            try:
                setattr(APP, name, rec)
                out2, err2 = P.run(program, P.common_args(paths, **kw) + ["--haplotypes", hap] + extra)
            finally:
                setattr(APP, name, orig)
            if err2 is not None:
                problems.append(Problem("%s:raised:%s" % (program, type(err2).__name__), CLI.describe(err2)))
                return problems
            from mchap.io import LocusPrior
            import pysam

            with pysam.VariantFile(hap) as vf:
                loci = [LocusPrior.from_variant_record(r, frequency_tag="AFP" if case.get("prior") else None) for r in vf]
            usable = []
            for l in loci:
                f = np.asarray(l.frequencies, dtype=float)
                mask = np.zeros(len(f), bool)
                mask[0] = l.mask_reference_allele
                with np.errstate(invalid="ignore"):
                    mask |= f == 0
                if np.all(mask) or np.any(np.isnan(f)):
                    continue
                usable.append((l, mask, f))
            i = 0
            for l, mask, f in usable:
                haps = l.encode_haplotypes()[~mask]
                fr = f[~mask]
                targets = samples if program == "call" else [None]
                for s in targets:
                    if i >= len(log):
                        problems.append(Problem("wiring:%s:missing_fit" % program, "fewer sampler constructions (%d) than usable records x samples" % len(log)))
                        return problems
                    k = log[i]
                    i += 1
                    kh = np.asarray(k["haplotypes"])
                    kf = None if k.get("frequencies") is None else np.asarray(k["frequencies"], dtype=float)
                    if kf is not None and len(kf) == len(kh) and len(kh) != len(haps):
                        # an implementation may hand zero-prior alleles to the sampler as long as their prior stays zero:
                        # compare after dropping them (whether they can then be sampled is decided by C16 on the output)
                        keep = kf > 0
                        kh, kf = kh[keep], kf[keep] / kf[keep].sum()
                    if not np.array_equal(kh, haps):
                        problems.append(Problem("wiring:%s:haplotypes" % program, "record %s:%d: sampler haplotypes differ from the unmasked, non-zero-prior input haplotypes" % (l.contig, l.start + 1)))
                        return problems
                    k = dict(k, frequencies=kf)
                    if k.get("frequencies") is None or len(k["frequencies"]) != len(fr) or any(abs(a - b) > 1e-9 for a, b in zip(k["frequencies"], fr)):
                        problems.append(Problem("wiring:%s:frequencies" % program, "record %s:%d: sampler prior %s, expected %s" % (l.contig, l.start + 1, k.get("frequencies"), fr.tolist())))
                        return problems
                    if k["steps"] != case["steps"] or k["chains"] != case["chains"] or k["random_seed"] != case["seed"]:
                        problems.append(Problem("wiring:%s:mcmc_options" % program, "steps/chains/seed %s/%s/%s, user specified %s/%s/%s" % (k["steps"], k["chains"], k["random_seed"], case["steps"], case["chains"], case["seed"])))
                        return problems
                    if program == "call":
                        if k["ploidy"] != case["ploidy"][s] or not close(k.get("inbreeding", 0.0), case["inbreeding"][s]):
                            problems.append(Problem("wiring:call:ploidy_inbreeding", "sample %s: sampler ploidy %r inbreeding %r, user specified %r / %r" % (s, k["ploidy"], k.get("inbreeding", "<default>"), case["ploidy"][s], case["inbreeding"][s])))
                            return problems
                    else:
                        idx = {s_: j for j, s_ in enumerate(samples)}
                        exp_par = [[-1 if p == "." else idx[p] for p in case["pedigree"][s_]] for s_ in samples]
                        checks = [("sample_ploidy", [case["ploidy"][s_] for s_ in samples]), ("sample_parents", exp_par),
                                  ("gamete_tau", [case["tau"][s_] for s_ in samples]), ("gamete_lambda", [case["ibd"][s_] for s_ in samples]),
                                  ("gamete_error", [case["error"][s_] for s_ in samples])]
                        for key, v in checks:
                            if not np.allclose(np.asarray(k[key], dtype=float), np.asarray(v, dtype=float), atol=1e-12):
                                problems.append(Problem("wiring:call-pedigree:" + key, "sampler %s=%s, pedigree files give %s" % (key, np.asarray(k[key]).tolist(), v)))
                                return problems
                        if k.get("annealing") != case["burn"]:
                            problems.append(Problem("wiring:call-pedigree:annealing", "annealing %r, burn-in %r" % (k.get("annealing"), case["burn"])))
                            return problems
    finally:
        shutil.rmtree(wd, ignore_errors=True)
        nt = len(samples) >= 2 and (len(set(case["ploidy"].values())) > 1 or any(v > 0 for v in case["inbreeding"].values()))
        ctx.record(case, nt, ["wiring:" + program, "wiring_fits=%d" % min(len(log), 9)])
    return problems
