"""C18 — pedigree sampler moves are stationary at the joint pedigree posterior."""

import math

import numpy as np
from hypothesis import strategies as st

from ..common import Problem, guard
from ..gen import pedigree as GP
from ..ref import models as R
from ..ref import pedigree as RP

PROPERTY = "C18"
RULE = (
    "hypothesis draws pedigrees of 2-5[6] individuals (founders, duos, trios, selfing, multi-generation; random labelling so "
    "parents may follow children), ploidy {2,4}[6] mixed, balanced/unbalanced/clonal tau, lambda for tau=2, errors, 2-4 "
    "haplotypes, flat/skewed frequencies, per-sample read sets of unequal size padded as call-pedigree pads them, a random "
    "current joint state, target individual and allele position, and a parental pair with forced allele indices. Oracle: joint "
    "= prod_i L_ref(g_i) x P_ref(g_i | parents) with P_ref from explicit chromosome-copy enumeration. non-trivial = target has "
    ">=1 child and >=1 known parent, or unbalanced tau, or mixed ploidy, or a pair whose second parent has more distinct reads; "
    "distinct by decoded case"
)
ASSUMPTIONS = [
    "reference inheritance model of vf/ref/pedigree.py (agrees with trio_log_pmf to 1e-15 on the C17 grid)",
    "Gibbs vector compared at 1e-9 absolute; MH ordered-state detailed balance and swap acceptance in log space at 1e-8",
    "cases where every option has zero joint probability (possible only with error 0) are skipped and counted",
]

_cache = {}


def trio_logp(g, gp, gq, tau, lam, err, freqs):
    key = (len(g), gp, gq, tuple(tau), tuple(lam), tuple(err), tuple(freqs))
    if key not in _cache:
        if len(_cache) > 20000:
            _cache.clear()
        d = RP.trio_dist(gp, gq, tau[0], tau[1], lam[0], lam[1], 1.0 if gp is None else err[0], 1.0 if gq is None else err[1], list(freqs))
        _cache[key] = d
    else:
        d = _cache[key]
    # the distribution does not depend on g: cache by parents only
    p = d.get(tuple(sorted(g)), 0.0)
    return math.log(p) if p > 0 else -math.inf


def joint_log(case, genotypes, ordered_for=()):
    """log pi(G); for individuals in ordered_for subtract log perms (ordered-tuple target)."""
    total = 0.0
    haps = case["haplotypes"]
    for i, g in enumerate(genotypes):
        llk = R.log_likelihood(case["reads"][i], [haps[a] for a in g], case["counts"][i])
        p, q = case["parents"][i]
        gp = None if p < 0 else tuple(sorted(genotypes[p]))
        gq = None if q < 0 else tuple(sorted(genotypes[q]))
        lp = trio_logp(g, gp, gq, case["tau"][i], case["lambda"][i], case["error"][i], case["frequencies"])
        total += llk + lp
        if i in ordered_for:
            total -= math.log(R.perms(tuple(g)))
    return total


def normalise(logs):
    m = max(logs)
    if m == -math.inf:
        return None
    w = [math.exp(x - m) if x > -math.inf else 0.0 for x in logs]
    s = math.fsum(w)
    return [x / s for x in w]


def common_args(A, children, cache):
    return dict(
        sample_genotypes=None, sample_ploidy=A["ploidy"], sample_parents=A["parents"], sample_children=children,
        gamete_tau=A["tau"], gamete_lambda=A["lambda"], gamete_error=A["error"], sample_read_dists=A["reads"],
        sample_read_counts=A["counts"], haplotypes=A["haplotypes"], log_frequencies=A["log_frequencies"], llk_cache=cache,
        dosage=A["scratch"][0], dosage_p=A["scratch"][1], dosage_q=A["scratch"][2], gamete_p=A["scratch"][3],
        gamete_q=A["scratch"][4], constraint_p=A["scratch"][5], constraint_q=A["scratch"][6], dosage_log_frequencies=A["scratch"][7],
    )


def new_cache():
    from numba import types
    from numba.typed import Dict

    d = Dict.empty(key_type=types.UniTuple(types.int64, 2), value_type=types.float64)
    d[(-1, -1)] = np.nan
    return d


def check_cache_entries(problems, case, cache, label):
    """Every (sample, genotype index) entry must be the likelihood of that sample's own reads."""
    from mchap.jitutils import index_as_genotype_alleles

    haps = case["haplotypes"]
    n_checked = 0
    for (s, gi), val in cache.items():
        if s < 0:
            continue
        g = [int(x) for x in index_as_genotype_alleles(int(gi), case["ploidy"][int(s)])]
        t = R.log_likelihood(case["reads"][int(s)], [haps[a] for a in g], case["counts"][int(s)])
        n_checked += 1
        if not (abs(float(val) - t) <= 1e-9 * max(1.0, abs(t)) or (val == t)):
            problems.append(Problem(label, "cache entry (sample %d, genotype %s) = %r but the likelihood of that sample's own reads is %r (reads per sample %s)" % (int(s), g, float(val), t, [len(r) for r in case["reads"]])))
            break
    return n_checked


def check_case(ctx, case, c09_mode=False):
    from mchap.pedigree import mcmc as PM

    problems = []
    A = GP.arrays(case)
    n = len(case["ploidy"])
    n_h = len(case["haplotypes"])
    children = PM.sample_children_matrix(A["parents"])
    target, k = case["target"], case["allele_index"] % case["ploidy"][case["target"]]
    geno = [list(g) for g in case["genotypes"]]
    has_child = any(target in case["parents"][i] for i in range(n))
    known_parent = any(x >= 0 for x in case["parents"][target])
    unbalanced = any(t[0] != t[1] for t in case["tau"])
    mixed = len(set(case["ploidy"])) > 1
    classes = ["pedigree"] + (["unbalanced_tau"] if unbalanced else []) + (["mixed_ploidy"] if mixed else []) + (["hexaploid"] if 6 in case["ploidy"] else [])
    if any(p == q and p >= 0 for p, q in case["parents"]):
        classes.append("selfing")
    if any(t[0] == 0 or t[1] == 0 for t, pq in zip(case["tau"], case["parents"]) if pq[0] >= 0 or pq[1] >= 0):
        classes.append("clonal")
    pair_more_reads = False

    cache = new_cache() if case.get("use_cache", True) else None

    # ---------------- Gibbs
    with guard(problems, "gibbs"):
        args = common_args(A, children, cache)
        args["sample_genotypes"] = A["genotypes"].copy()
        v = PM.gibbs_probabilities(target_index=target, allele_index=k, **args)
        if not np.array_equal(args["sample_genotypes"], A["genotypes"]):
            problems.append(Problem("gibbs:state_not_restored", "gibbs_probabilities modified the joint state"))
        logs = []
        for a in range(n_h):
            g2 = [list(x) for x in geno]
            g2[target][k] = a
            logs.append(joint_log(case, g2, ordered_for=(target,)))
        exp_v = normalise(logs)
        if exp_v is None:
            ctx.count("gibbs:all_options_impossible_skipped")
        elif not c09_mode:
            if any(abs(float(v[a]) - exp_v[a]) > 1e-9 for a in range(n_h)) or any(x != x for x in v):
                problems.append(Problem("gibbs:full_conditional", "target %d (ploidy %d, parents %s, tau %s, lambda %s, error %s) position %d in state %s: Gibbs vector %s, exact full conditional of the joint %s" % (
                    target, case["ploidy"][target], case["parents"][target], case["tau"][target], case["lambda"][target], case["error"][target], k, geno, [round(float(x), 9) for x in v], [round(x, 9) for x in exp_v])))

    # ---------------- Metropolis-Hastings
    if not problems:
        with guard(problems, "mh"):
            args = common_args(A, children, cache)
            args["sample_genotypes"] = A["genotypes"].copy()
            v = PM.metropolis_hastings_probabilities(target_index=target, allele_index=k, **args)
            v = [float(x) for x in v]
            if abs(math.fsum(v) - 1.0) > 1e-9 or min(v) < -1e-12 or any(x != x for x in v):
                if joint_log(case, geno) > -math.inf:
                    problems.append(Problem("mh:row_sum", "MH vector %s is not a distribution (state %s)" % (v, geno)))
            elif not c09_mode and joint_log(case, geno) > -math.inf:
                cur = geno[target][k]
                l0 = joint_log(case, geno, ordered_for=(target,))
                for a in range(n_h):
                    if a == cur:
                        continue
                    g2 = [list(x) for x in geno]
                    g2[target][k] = a
                    l1 = joint_log(case, g2, ordered_for=(target,))
                    G2 = A["genotypes"].copy()
                    G2[target, k] = a
                    args2 = common_args(A, children, cache)
                    args2["sample_genotypes"] = G2
                    if l1 == -math.inf:
                        if v[a] > 1e-12:
                            problems.append(Problem("mh:moves_to_impossible_state", "MH proposes allele %d with probability %r although the joint probability of that state is 0" % (a, v[a])))
                            break
                        continue
                    v2 = [float(x) for x in PM.metropolis_hastings_probabilities(target_index=target, allele_index=k, **args2)]
                    if v[a] <= 1e-300 or v2[cur] <= 1e-300:
                        if max(v[a], v2[cur]) > 1e-12:
                            problems.append(Problem("mh:one_directional", "MH flow %r forward, %r backward" % (v[a], v2[cur])))
                            break
                        continue
                    d = (l0 + math.log(v[a])) - (l1 + math.log(v2[cur]))
                    if abs(d) > 1e-8:
                        problems.append(Problem("mh:detailed_balance", "target %d position %d allele %d->%d in state %s (tau %s, error %s): pi(G)K(G,G')/pi(G')K(G',G)=exp(%r)" % (target, k, cur, a, geno, case["tau"][target], case["error"][target], d)))
                        break

    # ---------------- parental allele exchange
    n_swaps = 0
    if not problems:
        with guard(problems, "swap"):
            pairs, blankets = PM.parental_pair_markov_blankets(A["parents"], children)
            orig_randint, orig_rand = np.random.randint, np.random.rand
            try:
                for j in range(len(pairs)):
                    p, q = int(pairs[j, 0]), int(pairs[j, 1])
                    ip = case["swap_indices"][0] % case["ploidy"][p]
                    iq = case["swap_indices"][1] % case["ploidy"][q]
                    if len(case["reads"][q]) > len(case["reads"][p]):
                        pair_more_reads = True
                    for force, label in ((0.0, "accept"), (2.0, "reject")):
                        script = [ip, iq]
                        np.random.randint = lambda *a, _s=script: _s.pop(0)
                        np.random.rand = lambda *a, _f=force: _f
                        G0 = A["genotypes"].copy()
                        args = common_args(A, children, cache)
                        del args["sample_children"]
                        args["sample_genotypes"] = G0
                        prob, accepted = PM.pair_allele_swap_step.py_func(p=p, q=q, markov_blanket=blankets[j], **args)
                        np.random.randint, np.random.rand = orig_randint, orig_rand
                        n_swaps += 1
                        a_p, a_q = geno[p][ip], geno[q][iq]
                        if a_p == a_q:
                            if not np.array_equal(G0, A["genotypes"]):
                                problems.append(Problem("swap:noop_changed_state", "identical alleles but state changed"))
                            continue
                        if c09_mode:
                            continue
                        g2 = [list(x) for x in geno]
                        if p == q:
                            g2[p][ip], g2[p][iq] = a_q, a_p
                        else:
                            g2[p][ip] = a_q
                            g2[q][iq] = a_p
                        l0 = joint_log(case, geno, ordered_for=(p, q))
                        l1 = joint_log(case, g2, ordered_for=(p, q))
                        if l0 == -math.inf:
                            ctx.count("swap:impossible_current_state_skipped")
                            continue
                        exp_prob = 0.0 if l1 == -math.inf else min(1.0, math.exp(min(0.0, l1 - l0)))
                        if p != q and (abs(float(prob) - exp_prob) > 1e-8 * max(exp_prob, 1e-12) + 1e-13 or prob != prob):
                            problems.append(Problem("swap:acceptance", "parents %d,%d (reads %d,%d) swapping allele copies %d<->%d in state %s: acceptance %r, min(1, pi(G')/pi(G)) = %r" % (p, q, len(case["reads"][p]), len(case["reads"][q]), a_p, a_q, geno, float(prob), exp_prob)))
                            break
                        if label == "reject" and not np.array_equal(G0, A["genotypes"]):
                            problems.append(Problem("swap:reject_not_restored", "rejected exchange left the state modified"))
                            break
                        if label == "accept" and bool(accepted) and p != q:
                            exp_G = A["genotypes"].copy()
                            exp_G[p, ip] = a_q
                            exp_G[q, iq] = a_p
                            if not np.array_equal(G0, exp_G):
                                problems.append(Problem("swap:accept_effect", "accepted exchange did not swap exactly the two selected copies"))
                                break
                    if problems:
                        break
            finally:
                np.random.randint, np.random.rand = orig_randint, orig_rand

    # ---------------- the caller-supplied cache must only hold true values
    if cache is not None and not any(":raised:" in p.signature for p in problems):
        with guard(problems, "cache"):
            nchk = check_cache_entries(problems, case, cache, "cache:entry_wrong_sample_reads")
            ctx.count("cache_entries_checked", nchk)

    nontrivial = (has_child and known_parent) or unbalanced or mixed or pair_more_reads
    if pair_more_reads:
        classes.append("pair_second_parent_more_reads")
    if has_child and known_parent:
        classes.append("target_with_child_and_parent")
    ctx.record(case, nontrivial, classes)
    ctx.count("swap_calls", n_swaps)
    return problems


@st.composite
def case_strategy(draw, quick):
    c = draw(GP.pedigree(max_n=5 if quick else 6, ploidies=(2, 4) if quick else (2, 4, 6)))
    c["kind"] = "pedigree_state"
    n = len(c["ploidy"])
    # bias the target towards individuals that have children and known parents
    cands = [i for i in range(n) if any(i in c["parents"][j] for j in range(n))]
    c["target"] = draw(st.sampled_from(cands)) if cands and draw(st.booleans()) else draw(st.integers(0, n - 1))
    c["allele_index"] = draw(st.integers(0, 5))
    c["swap_indices"] = [draw(st.integers(0, 5)), draw(st.integers(0, 5))]
    c["use_cache"] = draw(st.booleans())
    return c


def replay(ctx, case):
    if case.get("kind") == "wiring":
        from . import wiring

        return wiring.check_wiring(ctx, case)
    return check_case(ctx, case)


def run(ctx):
    q = ctx.quick
    ctx.hyp("pedigree_moves", case_strategy(q), check_case, 700 if q else 2000)
    from . import wiring

    ctx.hyp("wiring", wiring.wiring_case("call-pedigree"), wiring.check_wiring, 10 if q else 40)
