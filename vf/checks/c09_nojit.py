"""Worker for C09 layer 3: runs under NUMBA_DISABLE_JIT=1 (plain python) with every
cached-likelihood wrapper monitored.  usage: python -m vf.checks.c09_nojit in.json out.json"""

import json
import os
import sys
import warnings

assert os.environ.get("NUMBA_DISABLE_JIT") == "1"
sys.path.insert(0, os.environ.get("VERIF_REPO", "/repo"))

import numpy as np  # noqa: E402

from vf.gen import calling as GC  # noqa: E402
from vf.gen import pedigree as GP  # noqa: E402
from vf.gen import reads as G  # noqa: E402


def close(a, b):
    return a == b or abs(a - b) <= 1e-9 * max(1.0, abs(a), abs(b))


def run_assemble(case, res):
    from mchap.assemble import arraymap, mutation, structural
    from mchap.assemble import mcmc as M
    from mchap.assemble.likelihood import log_likelihood
    from mchap.jitutils import structural_change

    n_alleles = case["n_alleles"]
    n_base = len(n_alleles)
    R_arr = G.reads_array(case["reads"], n_base, max(n_alleles))
    C_arr = G.counts_array(case["counts"], len(case["reads"]))
    o1, o2, o3 = mutation.log_likelihood_cached, structural.log_likelihood_structural_change_cached, M.new_log_likelihood_cache

    def mon1(reads, genotype, read_counts=None, cache=None):
        before = arraymap.get(cache, genotype.ravel()) if cache is not None else float("nan")
        n_before = cache[4] if cache is not None else 0
        llk, cache2 = o1(reads, genotype, read_counts=read_counts, cache=cache)
        true = log_likelihood(reads, genotype, read_counts=read_counts)
        res["verified"] += 1
        if before == before:
            res["served_from_cache"] += 1
        if cache2 is not None and cache2[4] < n_before:
            res["flushes"] += 1
        if not close(float(llk), float(true)):
            res["problems"].append(["nojit:assemble_cached_value", "log_likelihood_cached returned %r for genotype %s whose llk is %r (served from cache: %s)" % (float(llk), genotype.tolist(), float(true), before == before)])
        return llk, cache2

    def mon2(reads, genotype, haplotype_indices, interval=None, read_counts=None, cache=None):
        g2 = genotype.copy()
        structural_change(g2, haplotype_indices, interval)
        before = arraymap.get(cache, g2.ravel()) if cache is not None else float("nan")
        n_before = cache[4] if cache is not None else 0
        llk, cache2 = o2(reads=reads, genotype=genotype, haplotype_indices=haplotype_indices, interval=interval, read_counts=read_counts, cache=cache)
        true = log_likelihood(reads, g2, read_counts=read_counts)
        res["verified"] += 1
        if before == before:
            res["served_from_cache"] += 1
        if cache2 is not None and cache2[4] < n_before:
            res["flushes"] += 1
        if not close(float(llk), float(true)):
            res["problems"].append(["nojit:structural_cached_value", "log_likelihood_structural_change_cached returned %r for rearranged genotype %s whose llk is %r" % (float(llk), g2.tolist(), float(true))])
        return llk, cache2

    def small_cache(ploidy, n_base, max_alleles, max_size=2**16):
        return arraymap.new(ploidy * n_base, max_alleles, initial_size=4, max_size=case["cache_max"])

    try:
        mutation.log_likelihood_cached = mon1
        structural.log_likelihood_structural_change_cached = mon2
        M.new_log_likelihood_cache = small_cache
        np.random.seed(case["seed"] % 2**32)
        gt, lt = M._denovo_assembler(
            genotype=np.zeros((case["ploidy"], n_base), dtype=np.int8), inbreeding=case["inbreeding"], reads=R_arr, read_counts=C_arr,
            n_alleles=np.array(n_alleles, dtype=np.int64), steps=case["steps"], break_dist=M._point_beta_probabilities(n_base, 1.0, 3.0),
            recombination_step_probability=1.0, partial_dosage_step_probability=1.0, dosage_step_probability=1.0,
            temperatures=np.array(case["temperatures"], dtype=np.float64), return_heated_trace=True, llk_cache_threshold=0)
        for c in range(gt.shape[0]):
            for i in range(gt.shape[1]):
                true = float(log_likelihood(R_arr, gt[c, i], read_counts=C_arr))
                if not close(true, float(lt[c, i])):
                    res["problems"].append(["nojit:assemble_trace_llk", "trace llk %r vs recomputed %r" % (float(lt[c, i]), true)])
                    return
    finally:
        mutation.log_likelihood_cached, structural.log_likelihood_structural_change_cached, M.new_log_likelihood_cache = o1, o2, o3


def run_call(case, res):
    from mchap.calling import mcmc as CM
    from mchap.assemble.likelihood import log_likelihood

    R_arr, C_arr, H, f = GC.arrays(case)
    o = CM.log_likelihood_alleles_cached

    def mon(reads, read_counts, haplotypes, genotype_alleles, cache=None):
        served = False
        if cache is not None:
            from mchap.jitutils import genotype_alleles_as_index

            served = genotype_alleles_as_index(np.sort(genotype_alleles)) in cache
        llk = o(reads=reads, read_counts=read_counts, haplotypes=haplotypes, genotype_alleles=genotype_alleles, cache=cache)
        true = log_likelihood(reads, haplotypes[genotype_alleles], read_counts=read_counts)
        res["verified"] += 1
        res["served_from_cache"] += int(served)
        if not close(float(llk), float(true)):
            res["problems"].append(["nojit:call_cached_value", "log_likelihood_alleles_cached returned %r for alleles %s whose llk is %r (served from cache: %s)" % (float(llk), [int(x) for x in genotype_alleles], float(true), served)])
        return llk

    try:
        CM.log_likelihood_alleles_cached = mon
        np.random.seed(case["seed"] % 2**32)
        init = np.zeros(case["ploidy"], dtype=np.int32)
        gt, lt = CM.mcmc_sampler(init, H, R_arr, C_arr, case["inbreeding"], frequencies=f, n_steps=case["steps"], cache=True,
                                 step_type=0 if case["step_type"] == "Gibbs" else 1)
        for i in range(len(gt)):
            true = float(log_likelihood(R_arr, H[gt[i]], read_counts=C_arr))
            if not close(true, float(lt[i])):
                res["problems"].append(["nojit:call_trace_llk", "step %d: llk trace %r for genotype %s, recomputed %r" % (i, float(lt[i]), gt[i].tolist(), true)])
                return
    finally:
        CM.log_likelihood_alleles_cached = o


def run_pedigree(case, res):
    from mchap.pedigree import mcmc as PM
    from mchap.assemble.likelihood import log_likelihood

    A = GP.arrays(case)
    o = PM.log_likelihood_alleles_cached

    def mon(reads, read_counts, haplotypes, sample, genotype_alleles, cache=None):
        served = False
        if cache is not None:
            from mchap.jitutils import genotype_alleles_as_index

            served = (sample, genotype_alleles_as_index(genotype_alleles)) in cache
        llk = o(reads=reads, read_counts=read_counts, haplotypes=haplotypes, sample=sample, genotype_alleles=genotype_alleles, cache=cache)
        idx = A["counts"][sample] > 0
        true = log_likelihood(A["reads"][sample][idx], haplotypes[genotype_alleles], read_counts=A["counts"][sample][idx])
        res["verified"] += 1
        res["served_from_cache"] += int(served)
        if not close(float(llk), float(true)):
            res["problems"].append(["nojit:pedigree_cached_value", "sample %d alleles %s: wrapper returned %r, likelihood of that sample's own reads is %r (served from cache: %s; reads per sample %s)" % (int(sample), [int(x) for x in genotype_alleles], float(llk), float(true), served, [len(r) for r in case["reads"]])])
        return llk

    try:
        PM.log_likelihood_alleles_cached = mon
        np.random.seed(case["seed"] % 2**32)
        PM.mcmc_sampler(A["genotypes"], A["ploidy"], A["parents"], A["tau"], A["lambda"], A["error"], A["reads"], A["counts"], A["haplotypes"],
                        A["log_frequencies"], n_steps=case["steps"], annealing=0, step_type=0 if case["step_type"] == "Gibbs" else 1,
                        swap_parental_alleles=True)
    finally:
        PM.log_likelihood_alleles_cached = o


def main():
    cases = json.load(open(sys.argv[1]))
    out = []
    for case in cases:
        res = {"problems": [], "verified": 0, "served_from_cache": 0, "flushes": 0}
        with warnings.catch_warnings():
            warnings.simplefilter("ignore")
            try:
                {"assemble": run_assemble, "call": run_call, "pedigree": run_pedigree}[case["which"]](case, res)
            except Exception as e:  # crash inside mchap while running as plain python
                import traceback

                res["problems"].append(["nojit:raised:%s" % type(e).__name__, traceback.format_exc()[-1500:]])
        res["problems"] = res["problems"][:3]
        out.append(res)
    json.dump(out, open(sys.argv[2], "w"))


if __name__ == "__main__":
    main()
