"""Hypothesis strategy for small pedigrees with reads (C09, C18)."""

import numpy as np
from hypothesis import strategies as st

from . import reads as G


@st.composite
def pedigree(draw, max_n=5, ploidies=(2, 4), max_haps=4, error_values=(0.01, 0.1, 0.5), allow_extreme_error=True):
    n = draw(st.integers(2, max_n))
    n_alleles = draw(G.n_alleles_vector(1, 2, 3))
    total = 1
    for x in n_alleles:
        total *= x
    import itertools

    all_h = [list(h) for h in itertools.product(*[range(x) for x in n_alleles])]
    n_h = draw(st.integers(2, min(max_haps, total)))
    haps = list(draw(st.permutations(all_h)))[:n_h]
    ploidy = [draw(st.sampled_from(ploidies)) for _ in range(n)]
    parents, tau, lam, err = [], [], [], []
    for i in range(n):
        m = ploidy[i]
        mode = draw(st.sampled_from(["founder", "duo", "trio", "trio", "self"])) if i > 0 else "founder"
        p = q = -1
        if mode == "duo":
            if draw(st.booleans()):
                p = draw(st.integers(0, i - 1))
            else:
                q = draw(st.integers(0, i - 1))
        elif mode == "trio":
            p = draw(st.integers(0, i - 1))
            q = draw(st.integers(0, i - 1))
        elif mode == "self":
            p = q = draw(st.integers(0, i - 1))
        # gamete ploidies
        def tau_options(p, q):
            out = []
            for tp in range(0, m + 1):
                tq = m - tp
                if p >= 0 and tp > ploidy[p]:
                    continue
                if q >= 0 and tq > ploidy[q]:
                    continue
                out.append((tp, tq))
            return out

        opts = tau_options(p, q)
        if not opts:
            q = -1
            opts = tau_options(p, q)
        if not opts:
            p = -1
            opts = tau_options(p, q)
        balanced = (m // 2, m - m // 2)
        if balanced in opts and draw(st.integers(0, 2)) > 0:
            tp, tq = balanced
        else:
            tp, tq = draw(st.sampled_from(opts))
        lp = draw(st.sampled_from([0.0, 0.0, 0.125, 0.5])) if tp == 2 else 0.0
        lq = draw(st.sampled_from([0.0, 0.0, 0.125, 0.5])) if tq == 2 else 0.0
        ev = list(error_values) + ([0.0, 1.0] if allow_extreme_error and draw(st.integers(0, 5)) == 0 else [])
        ep = draw(st.sampled_from(ev))
        eq = draw(st.sampled_from(ev))
        parents.append([p, q])
        tau.append([tp, tq])
        lam.append([lp, lq])
        err.append([ep, eq])
    # relabel individuals with a random permutation (parents may come after children)
    perm = list(draw(st.permutations(range(n))))  # new index of old i is perm[i]
    inv = [0] * n
    for old, new in enumerate(perm):
        inv[new] = old
    def remap(x):
        return -1 if x < 0 else perm[x]
    ploidy2 = [ploidy[inv[j]] for j in range(n)]
    parents2 = [[remap(parents[inv[j]][0]), remap(parents[inv[j]][1])] for j in range(n)]
    tau2 = [tau[inv[j]] for j in range(n)]
    lam2 = [lam[inv[j]] for j in range(n)]
    err2 = [err[inv[j]] for j in range(n)]
    # frequencies
    if draw(st.booleans()):
        freqs = [1.0 / n_h] * n_h
    else:
        w = [draw(st.integers(1, 8)) for _ in range(n_h)]
        freqs = [x / sum(w) for x in w]
    # reads per sample (unequal numbers), genotypes
    sample_reads, sample_counts, genotypes = [], [], []
    for j in range(n):
        r, c = draw(G.read_set(n_alleles, min_reads=0, max_reads=5, counts=True, max_count=3))
        sample_reads.append(r)
        sample_counts.append(c if c is not None else [1] * len(r))
        genotypes.append([draw(st.integers(0, n_h - 1)) for _ in range(ploidy2[j])])
    return {
        "n_alleles": n_alleles, "haplotypes": haps, "ploidy": ploidy2, "parents": parents2, "tau": tau2, "lambda": lam2,
        "error": err2, "frequencies": freqs, "reads": sample_reads, "counts": sample_counts, "genotypes": genotypes,
    }


def arrays(case):
    """Arrays exactly as call-pedigree builds them (NaN rows / zero counts as padding, -1 allele padding)."""
    n = len(case["ploidy"])
    n_alleles = case["n_alleles"]
    n_base = len(n_alleles)
    max_allele = max(n_alleles)
    max_reads = max([len(r) for r in case["reads"]] + [1])
    max_ploidy = max(case["ploidy"])
    R = np.full((n, max_reads, n_base, max_allele), np.nan)
    C = np.zeros((n, max_reads), dtype=np.int64)
    for i in range(n):
        if case["reads"][i]:
            R[i, : len(case["reads"][i])] = G.reads_array(case["reads"][i], n_base, max_allele)
            C[i, : len(case["counts"][i])] = np.array(case["counts"][i], dtype=np.int64)
    geno = np.full((n, max_ploidy), -1, dtype=np.int16)
    for i in range(n):
        geno[i, : case["ploidy"][i]] = case["genotypes"][i]
    return {
        "reads": R, "counts": C, "genotypes": geno,
        "ploidy": np.array(case["ploidy"], dtype=np.int64),
        "parents": np.array(case["parents"], dtype=np.int64).reshape(n, 2),
        "tau": np.array(case["tau"], dtype=np.int64).reshape(n, 2),
        "lambda": np.array(case["lambda"], dtype=np.float64).reshape(n, 2),
        "error": np.array(case["error"], dtype=np.float64).reshape(n, 2),
        "haplotypes": np.array(case["haplotypes"], dtype=np.int8).reshape(len(case["haplotypes"]), n_base),
        "log_frequencies": np.log(np.array(case["frequencies"], dtype=np.float64)),
        "scratch": [np.zeros(max_ploidy, dtype=np.int64) for _ in range(7)] + [np.zeros(max_ploidy, dtype=np.float64)],
    }
