"""Strategies for the known-haplotype calling problems (C02, C03, C09)."""

import numpy as np
from hypothesis import strategies as st

from . import reads as G


@st.composite
def calling_instance(draw, max_haps=5, max_ploidy=4, max_base=3, max_states=400, allow_zero_freq=False,
                     min_reads=1, max_reads=5, max_count=4, deep=False):
    import math

    n_alleles = draw(G.n_alleles_vector(1, max_base, 4))
    total = 1
    for n in n_alleles:
        total *= n
    n_h = draw(st.integers(1 if allow_zero_freq else 2, min(max_haps, total))) if total >= 2 else 1
    n_h = max(1, min(n_h, total))
    import itertools

    all_haps = draw(st.permutations([list(h) for h in itertools.product(*[range(n) for n in n_alleles])]))
    haps = [list(h) for h in all_haps[:n_h]]
    ploidy = draw(st.integers(1, max_ploidy))
    while math.comb(n_h + ploidy - 1, ploidy) > max_states and ploidy > 1:
        ploidy -= 1
    fmode = draw(st.sampled_from(["none", "flat", "skewed", "skewed"]))
    if fmode == "none":
        freqs = None
    elif fmode == "flat":
        freqs = [1.0 / n_h] * n_h
    else:
        lo = 0 if allow_zero_freq else 1
        w = [draw(st.integers(lo, 8)) for _ in range(n_h)]
        if sum(w) == 0:
            w[draw(st.integers(0, n_h - 1))] = 1
        s = sum(w)
        freqs = [x / s for x in w]
    F = draw(G.inbreeding)
    reads, counts = draw(G.read_set(n_alleles, min_reads=min_reads, max_reads=max_reads, max_count=(500 if deep else max_count), counts=True))
    if counts is None:
        counts = [1] * len(reads)
    return {"n_alleles": n_alleles, "haplotypes": haps, "ploidy": ploidy, "frequencies": freqs, "inbreeding": F,
            "reads": reads, "counts": counts}


def arrays(case):
    n_alleles = case["n_alleles"]
    n_base = len(n_alleles)
    max_allele = max(n_alleles)
    R = G.reads_array(case["reads"], n_base, max_allele)
    C = np.array(case["counts"], dtype=np.int64).reshape(len(case["reads"]))
    H = np.array(case["haplotypes"], dtype=np.int8).reshape(len(case["haplotypes"]), n_base)
    f = None if case["frequencies"] is None else np.array(case["frequencies"], dtype=np.float64)
    return R, C, H, f
