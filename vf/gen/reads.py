"""Hypothesis strategies for probabilistic read tensors, genotypes, parameters.

Everything is plain python (lists, ints, floats, None for NaN) so that a case
is directly JSON-able and replayable.
"""

import numpy as np
from hypothesis import strategies as st

P_CALL = [0.6, 0.7, 0.8, 0.9, 0.95, 0.99, 0.999]
FREE = [0.01, 0.05, 0.1, 0.2, 0.25, 0.3, 0.4, 0.5, 0.6, 0.75, 0.9, 0.97]
DYADIC_F = [0.0, 0.0, 0.0625, 0.125, 0.25, 0.375, 0.5, 0.75, 0.9375]


@st.composite
def n_alleles_vector(draw, min_base=1, max_base=4, max_allele=4):
    n = draw(st.integers(min_base, max_base))
    return [draw(st.integers(2, max_allele)) for _ in range(n)]


@st.composite
def read_cell(draw, n_allele, max_allele, allow_zero=False, allow_partial_nan=False, gap_prob=True):
    mode = draw(st.sampled_from(["call", "call", "call", "free", "gap"] if gap_prob else ["call", "call", "free"]))
    if mode == "gap":
        return [None] * max_allele
    if mode == "call":
        a = draw(st.integers(0, n_allele - 1))
        ps = P_CALL + ([1.0] if allow_zero else [])
        p = draw(st.sampled_from(ps))
        e = (1.0 - p) / 3
        cell = [p if i == a else e for i in range(max_allele)]
    else:
        vals = FREE + ([0.0] if allow_zero else [])
        cell = [draw(st.sampled_from(vals)) for _ in range(max_allele)]
    for i in range(n_allele, max_allele):
        cell[i] = 0.0
    if allow_partial_nan and draw(st.integers(0, 9)) == 0:
        cell[draw(st.integers(0, max_allele - 1))] = None
    return cell


@st.composite
def read_set(draw, n_alleles, max_allele=None, min_reads=0, max_reads=6, allow_zero=False,
             allow_partial_nan=False, max_count=4, counts="maybe"):
    if max_allele is None:
        max_allele = max(n_alleles) if n_alleles else 2
    n_reads = draw(st.integers(min_reads, max_reads))
    reads = [
        [draw(read_cell(n_alleles[j], max_allele, allow_zero, allow_partial_nan)) for j in range(len(n_alleles))]
        for _ in range(n_reads)
    ]
    if counts == "maybe":
        use = draw(st.booleans())
    else:
        use = bool(counts)
    cts = [draw(st.integers(1, max_count)) for _ in range(n_reads)] if use else None
    return reads, cts


def reads_array(reads, n_base, max_allele):
    """nested list (None = NaN) -> float64 ndarray (n_reads, n_base, max_allele)."""
    arr = np.empty((len(reads), n_base, max_allele), dtype=np.float64)
    for r, read in enumerate(reads):
        for j in range(n_base):
            for a in range(max_allele):
                v = read[j][a]
                arr[r, j, a] = np.nan if v is None else v
    return arr


def counts_array(counts, n_reads):
    if counts is None:
        return None
    return np.array(counts, dtype=np.int64).reshape(n_reads)


@st.composite
def genotype_matrix(draw, ploidy, n_alleles, dup_bias=True):
    """(ploidy, n_base) matrix of alleles; biased towards duplicated rows."""
    rows = []
    for h in range(ploidy):
        if rows and dup_bias and draw(st.integers(0, 2)) == 0:
            rows.append(list(draw(st.sampled_from(rows))))
        else:
            rows.append([draw(st.integers(0, n - 1)) for n in n_alleles])
    return rows


inbreeding = st.sampled_from(DYADIC_F)
