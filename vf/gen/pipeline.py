"""Helpers to run the programs on a written dataset and chain their outputs."""

import os

import pysam

from . import cli as CLI

FAST_MCMC = ["--mcmc-steps", 60, "--mcmc-burn", 20, "--mcmc-chains", 2, "--mcmc-seed", 11]


def write_map(path, mapping):
    with open(path, "w") as fh:
        for k, v in mapping.items():
            if isinstance(v, (list, tuple)):
                fh.write("%s\t%s\n" % (k, "\t".join(str(x) for x in v)))
            else:
                fh.write("%s\t%s\n" % (k, v))
    return path


def common_args(paths, ploidy=None, inbreeding=None, directory=None):
    a = ["--bam"] + list(paths["bams"])
    if isinstance(ploidy, dict):
        a += ["--ploidy", write_map(os.path.join(directory, "ploidy.txt"), ploidy)]
    elif ploidy is not None:
        a += ["--ploidy", ploidy]
    if isinstance(inbreeding, dict):
        a += ["--inbreeding", write_map(os.path.join(directory, "inbreeding.txt"), inbreeding)]
    elif inbreeding is not None:
        a += ["--inbreeding", inbreeding]
    return a


def assemble_args(paths, extra=(), **kw):
    return common_args(paths, **kw) + ["--targets", paths["bed"], "--variants", paths["vcf"], "--reference", paths["fasta"]] + FAST_MCMC + list(extra)


def save_vcf(text, path):
    """Write program output as bgzipped + tabix indexed VCF (sorted by the header contig order)."""
    lines = text.splitlines()
    header = [l for l in lines if l.startswith("#")]
    recs = [l for l in lines if l and not l.startswith("#")]
    contigs = [l.split("ID=")[1].split(",")[0].rstrip(">") for l in header if l.startswith("##contig")]
    order = {c: i for i, c in enumerate(contigs)}
    recs.sort(key=lambda l: (order.get(l.split("\t")[0], 0), int(l.split("\t")[1])))
    plain = path[:-3] if path.endswith(".gz") else path
    with open(plain, "w") as fh:
        fh.write("\n".join(header + recs) + "\n")
    pysam.tabix_compress(plain, plain + ".gz", force=True)
    pysam.tabix_index(plain + ".gz", preset="vcf", force=True)
    os.remove(plain)
    return plain + ".gz"


def call_args(paths, hap_vcf, extra=(), mcmc=True, **kw):
    a = common_args(paths, **kw) + ["--haplotypes", hap_vcf]
    if mcmc:
        a += FAST_MCMC
    return a + list(extra)


def run(name, args):
    return CLI.run_inprocess(name, args)
