"""Drive mchap programs in-process (as the repository's own tests do) or as subprocesses."""

import contextlib
import io
import os
import subprocess
import sys
import warnings

MCHAP_BIN = "/venv/bin/mchap"


def program_class(name):
    from mchap.application import assemble, call, call_exact, call_pedigree

    return {"assemble": assemble.program, "call": call.program, "call-exact": call_exact.program, "call-pedigree": call_pedigree.program}[name]


def run_inprocess(name, args):
    """Returns (stdout_text, exception or None)."""
    buf = io.StringIO()
    err = None
    argv = ["mchap", name] + [str(a) for a in args]
    old_filters = warnings.filters[:]
    try:
        with contextlib.redirect_stdout(buf):
            if name in ("assemble", "call", "call-exact", "call-pedigree"):
                prog = program_class(name).cli(argv)
                prog.run_stdout()
            elif name == "find-snvs":
                from mchap.application import find_snvs

                find_snvs.main(argv)
            elif name == "atomize":
                from mchap.application import atomize

                atomize.main(argv)
            else:
                raise ValueError(name)
    except SystemExit as e:
        err = e
    except Exception as e:  # noqa
        err = e
    finally:
        warnings.filters[:] = old_filters
    return buf.getvalue(), err


def make_program(name, args):
    argv = ["mchap", name] + [str(a) for a in args]
    return program_class(name).cli(argv)


def run_subprocess(name, args, timeout=600, env=None):
    e = dict(os.environ)
    repo = os.environ.get("VERIF_REPO", "/repo")
    # the console script must import the tree under test (editable install points at /repo)
    e["PYTHONPATH"] = repo + os.pathsep + e.get("PYTHONPATH", "")
    if env:
        e.update(env)
    p = subprocess.run([MCHAP_BIN, name] + [str(a) for a in args], capture_output=True, text=True, timeout=timeout, env=e)
    return p.returncode, p.stdout, p.stderr


def split_vcf(text):
    header = [l for l in text.splitlines() if l.startswith("#")]
    records = [l for l in text.splitlines() if l and not l.startswith("#")]
    return header, records


def parse_records(text):
    """Light parser: list of dicts with fixed columns, INFO dict and per-sample FORMAT dicts."""
    header, records = split_vcf(text)
    samples = []
    for l in header:
        if l.startswith("#CHROM"):
            samples = l.split("\t")[9:]
    out = []
    for l in records:
        c = l.split("\t")
        info = {}
        if c[7] != ".":
            for kv in c[7].split(";"):
                if "=" in kv:
                    k, v = kv.split("=", 1)
                    info[k] = v
                else:
                    info[kv] = True
        fmt = c[8].split(":") if len(c) > 8 else []
        sd = {}
        for s, col in zip(samples, c[9:]):
            vals = col.split(":")
            sd[s] = dict(zip(fmt, vals))
        out.append({"CHROM": c[0], "POS": int(c[1]), "ID": c[2], "REF": c[3], "ALT": [] if c[4] == "." else c[4].split(","),
                    "QUAL": c[5], "FILTER": c[6], "INFO": info, "FORMAT": fmt, "samples": sd, "line": l})
    return header, samples, out


def describe(err):
    """Exception with its cause chain, one line."""
    parts = []
    e = err
    n = 0
    while e is not None and n < 6:
        parts.append("%s: %s" % (type(e).__name__, str(e)[:300]))
        e = e.__cause__ or e.__context__
        n += 1
    return " <- ".join(parts)
