"""Synthetic datasets known by construction: reference FASTA, SNV VCF, BED, BAMs.

A dataset *spec* is plain JSON:
  contigs: [{"name","seq"}]
  snvs:    [{"contig": name, "pos": 0-based, "alleles": ["A","C",..]}]       (alleles[0] == reference base)
  loci:    [{"contig","start","stop","name"}]
  bams:    [{"name", "read_groups":[{"id","sm"}], "reads":[read,...]}]
  read:    {"qname","rg","contig","pos","cigar":[[op,len]..],"seq","qual":int,"mapq","flag":{dup,qcfail,supp,secondary,
            unmapped,paired,read1,reverse}}
The writer produces sorted, indexed BAMs with MD tags (mchap needs them for get_aligned_pairs(with_seq=True)).
"""

import os

import numpy as np
import pysam
from hypothesis import strategies as st

BASES = "ACGT"
CIGAR_CODE = {"M": 0, "I": 1, "D": 2, "N": 3, "S": 4, "H": 5, "P": 6, "=": 7, "X": 8}


# ------------------------------------------------------------------ writer


def md_tag(ref_seq, pos, cigar, seq):
    """MD string for an alignment (reference bases for mismatches/deletions)."""
    out = []
    run = 0
    r = pos
    q = 0
    for op, n in cigar:
        if op in ("M", "=", "X"):
            for _ in range(n):
                if seq[q].upper() == ref_seq[r].upper():
                    run += 1
                else:
                    out.append(str(run))
                    out.append(ref_seq[r].upper())
                    run = 0
                q += 1
                r += 1
        elif op == "D":
            out.append(str(run))
            out.append("^" + ref_seq[r:r + n].upper())
            run = 0
            r += n
        elif op == "N":
            r += n
        elif op in ("I", "S"):
            q += n
    out.append(str(run))
    return "".join(out)


def ref_span(cigar):
    return sum(n for op, n in cigar if op in ("M", "=", "X", "D", "N"))


def query_len(cigar):
    return sum(n for op, n in cigar if op in ("M", "=", "X", "I", "S"))


def flag_value(f, paired_mate_unmapped=False):
    v = 0
    if f.get("paired"):
        v |= 0x1
        v |= 0x40 if f.get("read1", True) else 0x80
    if f.get("unmapped"):
        v |= 0x4
    if f.get("reverse"):
        v |= 0x10
    if f.get("secondary"):
        v |= 0x100
    if f.get("qcfail"):
        v |= 0x200
    if f.get("dup"):
        v |= 0x400
    if f.get("supp"):
        v |= 0x800
    return v


def write_dataset(spec, directory):
    """Writes all files; returns dict of paths."""
    os.makedirs(directory, exist_ok=True)
    paths = {}
    fa = os.path.join(directory, "ref.fa")
    with open(fa, "w") as fh:
        for c in spec["contigs"]:
            fh.write(">%s\n" % c["name"])
            s = c["seq"]
            if spec.get("fasta_lowercase"):
                # soft-masked reference: alternate upper / lower case runs of 7 bases (the sequence itself is unchanged)
                s = "".join(ch.lower() if (i // 7) % 2 else ch for i, ch in enumerate(s))
            for i in range(0, len(s), 60):
                fh.write(s[i:i + 60] + "\n")
    pysam.faidx(fa)
    paths["fasta"] = fa
    # SNV VCF
    vcf = os.path.join(directory, "snvs.vcf")
    order = {c["name"]: i for i, c in enumerate(spec["contigs"])}
    with open(vcf, "w") as fh:
        fh.write("##fileformat=VCFv4.3\n")
        for c in spec["contigs"]:
            fh.write("##contig=<ID=%s,length=%d>\n" % (c["name"], len(c["seq"])))
        fh.write("#CHROM\tPOS\tID\tREF\tALT\tQUAL\tFILTER\tINFO\n")
        for s in sorted(spec["snvs"], key=lambda s: (order[s["contig"]], s["pos"])):
            if spec.get("split_snv_records") and len(s["alleles"]) > 2:
                # a multi-allelic SNV given as several bi-allelic records at the same position (they are merged by the reader)
                for alt in s["alleles"][1:]:
                    fh.write("%s\t%d\t.\t%s\t%s\t.\t.\t.\n" % (s["contig"], s["pos"] + 1, s["alleles"][0], alt))
            else:
                fh.write("%s\t%d\t.\t%s\t%s\t.\t.\t.\n" % (s["contig"], s["pos"] + 1, s["alleles"][0], ",".join(s["alleles"][1:]) or "."))
    pysam.tabix_compress(vcf, vcf + ".gz", force=True)
    pysam.tabix_index(vcf + ".gz", preset="vcf", force=True)
    os.remove(vcf)
    paths["vcf"] = vcf + ".gz"
    bed = os.path.join(directory, "targets.bed")
    with open(bed, "w") as fh:
        for l in spec["loci"]:
            fh.write("%s\t%d\t%d\t%s\n" % (l["contig"], l["start"], l["stop"], l["name"]))
    paths["bed"] = bed
    paths["bams"] = []
    for b in spec["bams"]:
        paths["bams"].append(write_bam(spec, b, os.path.join(directory, b["name"] + ".bam")))
    return paths


def write_bam(spec, bam, path):
    header = {
        "HD": {"VN": "1.6", "SO": "coordinate"},
        "SQ": [{"SN": c["name"], "LN": len(c["seq"])} for c in spec["contigs"]],
        "RG": [{"ID": rg["id"], "SM": rg["sm"]} for rg in bam["read_groups"]],
    }
    cidx = {c["name"]: i for i, c in enumerate(spec["contigs"])}
    cseq = {c["name"]: c["seq"] for c in spec["contigs"]}
    reads = sorted(bam["reads"], key=lambda r: (cidx[r["contig"]], r["pos"]))
    tmp = path + ".unsorted.bam"
    with pysam.AlignmentFile(tmp, "wb", header=header) as out:
        for r in reads:
            a = pysam.AlignedSegment(out.header)
            a.query_name = r["qname"]
            a.query_sequence = r["seq"]
            a.flag = flag_value(r.get("flag", {}))
            a.reference_id = cidx[r["contig"]]
            a.reference_start = r["pos"]
            a.mapping_quality = r["mapq"]
            a.cigartuples = [(CIGAR_CODE[op], n) for op, n in r["cigar"]]
            a.query_qualities = pysam.qualitystring_to_array(chr(33 + r.get("qual", 30)) * len(r["seq"]))
            if r.get("flag", {}).get("paired"):
                a.next_reference_id = cidx[r["contig"]]
                a.next_reference_start = r.get("mate_pos", r["pos"])
            else:
                a.next_reference_id = -1
                a.next_reference_start = -1
            a.set_tag("RG", r["rg"])
            ref_seq = cseq[r["contig"]]
            for pos_, base_ in (r.get("md_ref") or {}).items():  # this read was aligned against a reference with other bases here
                ref_seq = ref_seq[: int(pos_)] + base_ + ref_seq[int(pos_) + 1:]
            a.set_tag("MD", md_tag(ref_seq, r["pos"], r["cigar"], r["seq"]))
            out.write(a)
    # input is already coordinate sorted (stable); sort anyway for safety with equal keys
    pysam.sort("-o", path, tmp)
    os.remove(tmp)
    pysam.index(path)
    return path


# ------------------------------------------------------------------ reference pileup


def aligned_bases(read):
    """{ref_pos: base} for positions aligned by M/=/X."""
    out = {}
    r = read["pos"]
    q = 0
    for op, n in read["cigar"]:
        if op in ("M", "=", "X"):
            for i in range(n):
                out[r + i] = read["seq"][q + i]
            r += n
            q += n
        elif op in ("D", "N"):
            r += n
        elif op in ("I", "S"):
            q += n
    return out


def read_passes(read, cfg):
    f = read.get("flag", {})
    if f.get("unmapped"):
        return False
    if read["mapq"] < cfg["mapq"]:
        return False
    if f.get("dup") and not cfg["keep_dup"]:
        return False
    if f.get("qcfail") and not cfg["keep_qcfail"]:
        return False
    if f.get("supp") and not cfg["keep_supp"]:
        return False
    return True


def overlaps(read, start, stop):
    """htslib fetch semantics: alignment reference span intersects [start, stop)."""
    span = ref_span(read["cigar"])
    end = read["pos"] + max(span, 1)
    return read["pos"] < stop and end > start


def reference_pileup(spec, bam, locus, snvs, sample, cfg):
    """Rows of the read matrix for one sample at one locus.

    Returns dict qname -> list of chars ('-' no coverage, base, or 'N' for disagreeing mates).
    `sample` is compared with the read group's field cfg['rg_field'] ('SM' or 'ID').
    """
    key = "sm" if cfg["rg_field"] == "SM" else "id"
    rg_ok = {rg["id"] for rg in bam["read_groups"] if rg[key] == sample}
    rows = {}
    positions = [s["pos"] for s in snvs]
    for read in sorted(bam["reads"], key=lambda r: r["pos"]):
        if read["contig"] != locus["contig"] or read["rg"] not in rg_ok:
            continue
        if not overlaps(read, locus["start"], locus["stop"]):
            continue
        if not read_passes(read, cfg):
            continue
        row = rows.setdefault(read["qname"], ["-"] * len(positions))
        ab = aligned_bases(read)
        for i, p in enumerate(positions):
            if p in ab:
                b = ab[p]
                if row[i] == "-":
                    row[i] = b
                elif row[i] != b:
                    row[i] = "N"
    return rows


def rows_as_calls(rows, snvs):
    """chars -> allele indices (-1 for no call / unlisted base)."""
    out = []
    for q in rows:
        out.append(tuple(s["alleles"].index(c) if c in s["alleles"] else -1 for c, s in zip(rows[q], snvs)))
    return out


def locus_snvs(spec, locus):
    return sorted([s for s in spec["snvs"] if s["contig"] == locus["contig"] and locus["start"] <= s["pos"] < locus["stop"]], key=lambda s: s["pos"])


# ------------------------------------------------------------------ strategies


@st.composite
def dna(draw, n):
    return "".join(draw(st.lists(st.sampled_from(BASES), min_size=n, max_size=n)))


@st.composite
def cigar_for(draw, max_ref=30, simple=False):
    """Valid CIGAR: S? (M (I|D|N) )* M S?"""
    ops = []
    if not simple and draw(st.integers(0, 5)) == 0:
        ops.append(["S", draw(st.integers(1, 4))])
    n_blocks = 1 if simple else draw(st.sampled_from([1, 1, 1, 2, 2, 3]))
    for b in range(n_blocks):
        # (pysam 0.24 mis-reads the quality string of 1-base reads: keep query length >= 2)
        ops.append(["M", draw(st.integers(2 if b == 0 else 1, max(2, max_ref // n_blocks)))])
        if b < n_blocks - 1:
            ops.append([draw(st.sampled_from(["I", "D", "D", "N"])), draw(st.integers(1, 3))])
    if not simple and draw(st.integers(0, 5)) == 0:
        ops.append(["S", draw(st.integers(1, 4))])
    return ops


@st.composite
def dataset_spec(draw, max_loci=3, max_snvs=5, max_samples=3, max_reads=25, paired=True, flags=True, multi_rg=True,
                 mapq_values=(0, 19, 20, 21, 60, 255), extra_bases=True, min_loci=1, n_contigs=None, simple_cigar=False,
                 min_reads=3, locus_len=(12, 30), unique_qnames_across_samples=True, sub_rate=0, min_samples=1, exotic=False):
    nc = n_contigs or draw(st.integers(1, 2))
    n_loci = draw(st.integers(min_loci, max_loci))
    contigs = []
    loci = []
    snvs = []
    # lay loci out on contigs with gaps
    per_contig = [[] for _ in range(nc)]
    for i in range(n_loci):
        per_contig[draw(st.integers(0, nc - 1))].append(i)
    li = 0
    exo = exotic and draw(st.booleans())
    for c in range(nc):
        name = "chr%d" % (c + 1)
        pos = 0 if (exo and draw(st.booleans())) else draw(st.integers(5, 15))  # a locus at the very start of the contig
        layout = []
        for _ in per_contig[c]:
            ln = draw(st.integers(1, 3)) if (exo and draw(st.integers(0, 3)) == 0) else draw(st.integers(*locus_len))
            layout.append((pos, pos + ln))
            if exo and draw(st.integers(0, 3)) == 0 and ln > 4:
                pos += draw(st.integers(1, ln - 1))  # the next locus overlaps this one
            else:
                pos += ln + draw(st.integers(8, 25))
        end_pad = 0 if (exo and layout and draw(st.booleans())) else 20  # a locus ending on the last base of the contig
        total_len = max([b for a, b in layout] + [pos]) + end_pad if end_pad else max([b for a, b in layout] + [1])
        seq = draw(dna(max(total_len, 8)))
        contigs.append({"name": name, "seq": seq})
        for (a, b) in layout:
            loci.append({"contig": name, "start": a, "stop": b, "name": "L%d" % li})
            li += 1
            n_s = draw(st.integers(0, max_snvs))
            poss = sorted(set(draw(st.lists(st.integers(a, b - 1), min_size=n_s, max_size=n_s))))
            for p in poss:
                if any(s_["contig"] == name and s_["pos"] == p for s_ in snvs):
                    continue  # overlapping loci share the SNV that is already there
                n_alt = draw(st.sampled_from([1, 1, 1, 2, 3]))
                others = [x for x in BASES if x != seq[p]]
                alts = list(draw(st.permutations(others)))[:n_alt]
                snvs.append({"contig": name, "pos": p, "alleles": [seq[p]] + alts})
    # samples and bam files
    n_samples = draw(st.integers(min_samples, max_samples))
    samples = ["S%d" % i for i in range(n_samples)]
    bams = []
    rg_count = 0
    remaining = list(samples)
    while remaining:
        k = draw(st.integers(1, len(remaining))) if multi_rg else 1
        here, remaining = remaining[:k], remaining[k:]
        rgs = []
        for s in here:
            for _ in range(draw(st.integers(1, 2)) if multi_rg else 1):
                rgs.append({"id": "rg%d" % rg_count, "sm": s})
                rg_count += 1
        bams.append({"name": "bam%d" % len(bams), "read_groups": rgs, "reads": []})
    cseq = {c["name"]: c["seq"] for c in contigs}
    qn = 0
    for b in bams:
        for rg in b["read_groups"]:
            # each read group sequences a "true genotype" of 2 haplotypes per locus
            for locus in loci:
                ls = [s for s in snvs if s["contig"] == locus["contig"] and locus["start"] <= s["pos"] < locus["stop"]]
                haps = [[draw(st.integers(0, len(s["alleles"]) - 1)) for s in ls] for _ in range(2)]
                n_reads = draw(st.integers(min_reads if draw(st.integers(0, 6)) else 0, max_reads))
                for _ in range(n_reads):
                    hap = haps[draw(st.integers(0, 1))]
                    cigar = draw(cigar_for(max_ref=locus["stop"] - locus["start"] + 6, simple=simple_cigar))
                    span = ref_span(cigar)
                    lo = max(0, locus["start"] - span - 2)
                    hi = min(len(cseq[locus["contig"]]) - span - 1, locus["stop"] + 1)
                    pos = draw(st.integers(lo, max(lo, hi)))
                    if pos + span + 1 > len(cseq[locus["contig"]]):
                        continue  # does not fit on a very short contig
                    read = make_read(draw, cseq[locus["contig"]], ls, hap, pos, cigar, extra_bases, sub_rate)
                    read.update({"qname": "q%d" % qn, "rg": rg["id"], "contig": locus["contig"], "mapq": draw(st.sampled_from(mapq_values)), "qual": 30})
                    qn += 1
                    fl = {}
                    if flags and draw(st.integers(0, 3)) == 0:
                        fl[draw(st.sampled_from(["dup", "qcfail", "supp", "secondary", "unmapped", "reverse"]))] = True
                        # reads carrying several exclusion flags: each keep option lifts only its own exclusion
                        while draw(st.integers(0, 2)) == 0:
                            fl[draw(st.sampled_from(["dup", "qcfail", "supp"]))] = True
                    read["flag"] = fl
                    b["reads"].append(read)
                    # mate sharing the qname, overlapping or not
                    if paired and draw(st.integers(0, 3)) == 0:
                        cigar2 = draw(cigar_for(max_ref=locus["stop"] - locus["start"] + 6, simple=simple_cigar))
                        span2 = ref_span(cigar2)
                        hi2 = max(lo, min(len(cseq[locus["contig"]]) - span2 - 1, locus["stop"] + 1))
                        if draw(st.integers(0, 2)):
                            # overlapping mate: starts next to its partner
                            pos2 = min(hi2, max(lo, read["pos"] + draw(st.integers(-3, 3))))
                        else:
                            pos2 = draw(st.integers(lo, hi2))
                        hap2 = hap if draw(st.booleans()) else haps[draw(st.integers(0, 1))]
                        if pos2 + span2 + 1 > len(cseq[locus["contig"]]):
                            continue
                        mate = make_read(draw, cseq[locus["contig"]], ls, hap2, pos2, cigar2, extra_bases, sub_rate)
                        mate.update({"qname": read["qname"], "rg": rg["id"], "contig": locus["contig"], "mapq": draw(st.sampled_from(mapq_values)), "qual": 30})
                        read["flag"] = dict(read["flag"], paired=True, read1=True)
                        read["mate_pos"] = pos2
                        mate["flag"] = {"paired": True, "read1": False}
                        mate["mate_pos"] = read["pos"]
                        b["reads"].append(mate)
    out = {"contigs": contigs, "snvs": snvs, "loci": loci, "bams": bams, "samples": samples}
    if exotic:
        out["fasta_lowercase"] = draw(st.booleans())
        out["split_snv_records"] = draw(st.booleans())
    return out


def make_read(draw, ref, ls, hap, pos, cigar, extra_bases, sub_rate=0):
    """Sequence following the reference with the haplotype's alleles at SNVs; occasional other bases / N."""
    snv_at = {s["pos"]: (s, a) for s, a in zip(ls, hap)}
    seq = []
    r = pos
    for op, n in cigar:
        if op in ("M", "=", "X"):
            for i in range(n):
                p = r + i
                if p in snv_at:
                    s, a = snv_at[p]
                    base = s["alleles"][a]
                    if extra_bases:
                        k = draw(st.integers(0, 14))
                        if k == 0:
                            base = "N"
                        elif k == 1:
                            base = draw(st.sampled_from(BASES))
                    seq.append(base)
                elif sub_rate and draw(st.integers(0, sub_rate - 1)) == 0:
                    # sequencing difference away from any listed SNV
                    seq.append(draw(st.sampled_from(BASES)))
                else:
                    seq.append(ref[p])
            r += n
        elif op in ("D", "N"):
            r += n
        elif op in ("I", "S"):
            seq.extend(draw(st.sampled_from(BASES)) for _ in range(n))
    return {"pos": pos, "cigar": [list(x) for x in cigar], "seq": "".join(seq)}
