"""Dispatcher: ./check <Cxx> <quick|thorough> | ./check <Cxx> --replay <file>

exit 0  property held on everything explored (KNOWN-FINDING lines possible)
exit 1  VIOLATION property=<id> replay=<path>
exit 2  harness error (never a violation)
"""

import glob
import importlib
import json
import os
import subprocess
import sys
import time
import traceback

from . import common
from .common import Ctx, HarnessError, Problem

NSHARDS_THOROUGH = 16


def load_module(prop):
    return importlib.import_module("vf.checks.%s" % prop.lower())


def run_regressions(ctx, module):
    """Committed shrunk failures of earlier defects: the seconds-long replay tier."""
    d = os.path.join(common.VERIF, "regressions", ctx.prop)
    n = 0
    for path in sorted(glob.glob(os.path.join(d, "*.json"))):
        with open(path) as fh:
            body = json.load(fh)
        case = body["case"] if "case" in body and "property" in body else body
        ctx.journal(case)
        problems = module.replay(ctx, case) or []
        ctx.check(case, problems)
        ctx.count("regression_cases")
        n += 1
    return n


def finish(ctx, module, t0):
    wall = time.time() - t0
    common.write_evidence(ctx, module, wall)
    for sig, n in sorted(ctx.known_hits.items()):
        k = ctx.is_known(sig)
        print("KNOWN-FINDING: property=%s %s (%d hits)" % (ctx.prop, k.get("what", sig), n))
    if ctx.violations:
        for sig, payload in sorted(ctx.violations.items()):
            path = common.write_replay(ctx.prop, sig, payload)
            print("VIOLATION property=%s replay=%s" % (ctx.prop, path))
            print("  signature: %s" % sig)
            print("  message:   %s" % payload["message"][:1000])
        return 1
    print(
        "OK property=%s tier=%s seed=%d evaluations=%d nontrivial=%d wall=%.1fs%s"
        % (
            ctx.prop,
            ctx.tier,
            ctx.seed,
            ctx.evaluations,
            len(ctx.nontrivial) + ctx.bulk_nontrivial,
            wall,
            " (budget exhausted: inconclusive beyond this point)" if ctx.budget_exhausted else "",
        )
    )
    return 0


def dump_partial(ctx, path):
    body = {
        "evaluations": ctx.evaluations,
        "nontrivial": sorted(ctx.nontrivial),
        "bulk_nontrivial": ctx.bulk_nontrivial,
        "samples": ctx.samples,
        "classes": dict(ctx.classes),
        "violations": ctx.violations,
        "known_hits": dict(ctx.known_hits),
        "excluded": ctx.excluded_by_known_finding,
        "notes": ctx.notes,
        "exhaustive": ctx.exhaustive,
        "budget_exhausted": ctx.budget_exhausted,
    }
    with open(path, "w") as fh:
        json.dump(body, fh, default=str)


def merge_partial(ctx, body):
    ctx.evaluations += body["evaluations"]
    ctx.nontrivial.update(body["nontrivial"])
    ctx.bulk_nontrivial += body["bulk_nontrivial"]
    for s in body["samples"]:
        if len(ctx.samples) < 6:
            ctx.samples.append(s)
    for k, v in body["classes"].items():
        ctx.classes[k] += v
    for sig, payload in body["violations"].items():
        ctx.violations.setdefault(sig, payload)
    for k, v in body["known_hits"].items():
        ctx.known_hits[k] += v
    ctx.excluded_by_known_finding += body["excluded"]
    for k, v in body["notes"].items():
        ctx.notes.setdefault(k, v)
    if body.get("exhaustive") is not None:
        ctx.exhaustive = body["exhaustive"] if ctx.exhaustive is None else (ctx.exhaustive and body["exhaustive"])
    ctx.budget_exhausted = ctx.budget_exhausted or body["budget_exhausted"]


def main(argv):
    if len(argv) >= 1 and argv[0] == "warm":
        common.setup_env()
        from . import warm

        warm.main()
        return 0
    if len(argv) < 2:
        print(__doc__)
        return 2
    prop = argv[0].upper()
    common.setup_env()
    seed = int(os.environ.get("VERIF_SEED", "1") or "1")
    known = common.load_known(prop)
    module = load_module(prop)
    t0 = time.time()

    if argv[1] == "--replay":
        path = argv[2]
        if not os.path.isabs(path) and not os.path.exists(path):
            path = os.path.join(common.VERIF, path)
        with open(path) as fh:
            body = json.load(fh)
        case = body["case"] if "case" in body and "signature" in body else body
        ctx = Ctx(prop, "quick", seed, known=[])
        problems = module.replay(ctx, case) or []
        if problems:
            for p in problems:
                print("VIOLATION property=%s replay=%s" % (prop, argv[2]))
                print("  signature: %s" % p.signature)
                print("  message:   %s" % p.message[:1000])
            return 1
        print("OK property=%s replay=%s holds" % (prop, argv[2]))
        return 0

    tier = argv[1]
    if tier not in ("quick", "thorough"):
        print("unknown tier %r" % tier)
        return 2
    os.environ["VERIF_TIER"] = tier

    # ---- shard worker
    if "--shard" in argv:
        i = argv.index("--shard")
        shard, nshards = int(argv[i + 1]), int(argv[i + 2])
        out = argv[argv.index("--shard-out") + 1]
        budget = float(os.environ.get("VERIF_BUDGET_S", "0") or 0) or None
        ctx = Ctx(prop, tier, seed, shard=shard, nshards=nshards, known=known, budget_s=budget)
        try:
            if os.environ.get("VF_RUN_REGRESSIONS", "1") == "1":
                run_regressions(ctx, module)
            module.run(ctx)
        finally:
            common.cleanup_work_dir()
        dump_partial(ctx, out)
        return 0

    nshards = 1
    if tier == "thorough":
        nshards = int(getattr(module, "SHARDS_THOROUGH", NSHARDS_THOROUGH))
    budget = float(os.environ.get("VERIF_BUDGET_S", "0") or 0) or None
    ctx = Ctx(prop, tier, seed, shard=0, nshards=nshards, known=known, budget_s=budget)
    try:
        # Workers always run in child processes: a hard crash of jitted code (segfault)
        # must not take the reporter down; the journalled case becomes the replay.
        if nshards > 1 and hasattr(module, "warm"):
            module.warm()  # warm the numba cache once before forking the shards
        outdir = os.path.join(common.VERIF, ".work", "shards-%s-%d" % (prop, os.getpid()))
        os.makedirs(outdir, exist_ok=True)
        procs = []
        for s in range(nshards):
            out = os.path.join(outdir, "shard%d.json" % s)
            journal = os.path.join(outdir, "journal%d.json" % s)
            log = open(os.path.join(outdir, "shard%d.log" % s), "w")
            env = dict(os.environ)
            env["VF_JOURNAL"] = journal
            env["VF_RUN_REGRESSIONS"] = "1" if s == 0 else "0"
            p = subprocess.Popen(
                [sys.executable, "-m", "vf.run", prop, tier, "--shard", str(s), str(nshards), "--shard-out", out],
                cwd=common.VERIF,
                stdout=log,
                stderr=subprocess.STDOUT,
                env=env,
            )
            procs.append((s, p, out, log, journal))
        failed = []
        limit = float(os.environ.get("VERIF_WORKER_TIMEOUT_S", "0") or 0) or (5400.0 if tier == "quick" else 6 * 3600.0)
        deadline = time.time() + limit
        for s, p, out, log, journal in procs:
            try:
                rc = p.wait(timeout=max(1.0, deadline - time.time()))
            except subprocess.TimeoutExpired:
                # a hang is inconclusive (never a violation): stop the worker and say where it was
                p.kill()
                p.wait()
                log.close()
                where = ""
                if os.path.exists(journal):
                    try:
                        with open(journal) as fh:
                            where = fh.read()[:600]
                    except OSError:
                        pass
                raise HarnessError("worker %d exceeded the time limit of %.0f s (inconclusive); last journalled case: %s" % (s, limit, where))
            log.close()
            if rc < 0 or rc in (134, 139):
                case = None
                if os.path.exists(journal):
                    try:
                        with open(journal) as fh:
                            case = json.load(fh)
                    except Exception:
                        case = None
                sig = "crash:worker_killed_by_signal_%d" % (-rc if rc < 0 else rc - 128)
                ctx.violation(Problem(sig, "the worker process died (signal) while executing the journalled case: code under test crashed the interpreter"), case or {"kind": "unknown"})
                continue
            if rc != 0 or not os.path.exists(out):
                failed.append(s)
                continue
            with open(out) as fh:
                merge_partial(ctx, json.load(fh))
        if failed:
            for s in failed:
                with open(os.path.join(outdir, "shard%d.log" % s)) as fh:
                    sys.stderr.write(fh.read()[-6000:])
            raise HarnessError("workers failed: %s" % failed)
        for s in range(nshards):
            try:
                with open(os.path.join(outdir, "shard%d.log" % s)) as fh:
                    txt = fh.read()
                if txt.strip() and os.environ.get("VF_VERBOSE"):
                    sys.stderr.write(txt[-3000:])
            except OSError:
                pass
        import shutil

        shutil.rmtree(outdir, ignore_errors=True)
    except HarnessError as e:
        sys.stderr.write("HARNESS ERROR: %s\n" % e)
        return 2
    except Exception:
        sys.stderr.write("HARNESS ERROR (unexpected exception)\n" + traceback.format_exc())
        return 2
    finally:
        common.cleanup_work_dir()
    return finish(ctx, module, t0)


if __name__ == "__main__":
    try:
        rc = main(sys.argv[1:])
    except SystemExit:
        raise
    except BaseException:
        sys.stderr.write("HARNESS ERROR (unexpected exception)\n" + traceback.format_exc())
        rc = 2
    sys.exit(rc)
