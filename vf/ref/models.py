"""Independent reference models (no mchap import).

Plain python / math / fractions.  Reads are nested lists
reads[r][j][a] with None (or NaN) for a missing call.
"""

import itertools
import math
from fractions import Fraction

NEG_INF = float("-inf")


# ---------------------------------------------------------------- genotypes


def vcf_order(ploidy, n_alleles):
    """Sorted allele tuples in the order of the VCF specification."""
    if ploidy == 0:
        yield ()
        return
    for a in range(n_alleles):
        for g in vcf_order(ploidy - 1, a + 1):
            yield g + (a,)


def genotype_rank(alleles):
    return sum(math.comb(a + k, k + 1) for k, a in enumerate(sorted(alleles)))


def n_genotypes(n_alleles, ploidy):
    return math.comb(n_alleles + ploidy - 1, ploidy)


def perms(genotype):
    """Number of distinct orderings of a multiset (tuple of hashables)."""
    n = math.factorial(len(genotype))
    counts = {}
    for a in genotype:
        counts[a] = counts.get(a, 0) + 1
    for c in counts.values():
        n //= math.factorial(c)
    return n


def all_haplotypes(n_alleles):
    """All haplotypes for a vector of allele counts, as tuples."""
    return list(itertools.product(*[range(n) for n in n_alleles]))


# ---------------------------------------------------------------- likelihood


def _isnan(x):
    return x is None or (isinstance(x, float) and x != x)


def read_hap_prob(read, hap):
    p = 1.0
    for j, a in enumerate(hap):
        v = read[j][a]
        if _isnan(v):
            continue
        p *= v
    return p


def log_likelihood(reads, genotype, counts=None):
    """sum_r c_r * log( mean_h prod_j P(read_r[j] | h[j]) ); gaps contribute 1."""
    ploidy = len(genotype)
    total = 0.0
    for r, read in enumerate(reads):
        c = 1 if counts is None else counts[r]
        pr = math.fsum(read_hap_prob(read, h) for h in genotype) / ploidy
        if c == 0:
            continue
        if pr <= 0.0:
            return NEG_INF
        total += c * math.log(pr)
    return total


# ---------------------------------------------------------------- priors


def genotype_prior(genotype, frequencies, inbreeding, exact=False):
    """Multinomial (F=0) / Dirichlet-multinomial prior of an unordered genotype.

    genotype: tuple of allele indices; frequencies: per-allele prior
    frequencies (sum to one).  Dispersion alpha_i = f_i (1-F)/F.
    Written with rising factorials, no gamma functions.
    """
    ploidy = len(genotype)
    counts = {}
    for a in genotype:
        counts[a] = counts.get(a, 0) + 1
    coef = math.factorial(ploidy)
    for c in counts.values():
        coef //= math.factorial(c)
    one = Fraction(1) if exact else 1.0
    if inbreeding == 0:
        p = one * coef
        for a, c in counts.items():
            p *= (Fraction(frequencies[a]) if exact else frequencies[a]) ** c
        return p
    F = Fraction(inbreeding) if exact else inbreeding
    scale = (1 - F) / F
    alphas = [(Fraction(f) if exact else f) * scale for f in frequencies]
    A = sum(alphas)
    num = one * coef
    for a, c in counts.items():
        for k in range(c):
            num *= alphas[a] + k
    den = one
    for k in range(ploidy):
        den *= A + k
    return num / den


def flat(n):
    return [1.0 / n] * n


def log_or_neginf(p):
    return math.log(p) if p > 0 else NEG_INF


def posterior_table(reads, counts, haplotypes, ploidy, frequencies, inbreeding):
    """Exact posterior over unordered genotypes of known haplotypes in VCF order.

    Returns (genotypes, llks, lpriors, probs)."""
    n = len(haplotypes)
    gens = list(vcf_order(ploidy, n))
    llks, lpris = [], []
    for g in gens:
        llks.append(log_likelihood(reads, [haplotypes[a] for a in g], counts))
        lpris.append(log_or_neginf(genotype_prior(g, frequencies, inbreeding)))
    joint = [a + b for a, b in zip(llks, lpris)]
    m = max(joint)
    if m == NEG_INF:
        return gens, llks, lpris, [float("nan")] * len(gens)
    w = [math.exp(j - m) if j > NEG_INF else 0.0 for j in joint]
    s = math.fsum(w)
    return gens, llks, lpris, [x / s for x in w]
