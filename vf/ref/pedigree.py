"""Independent reference for the call-pedigree inheritance model, by explicit
enumeration of chromosome copies (no mchap import).

A progeny genotype is the multiset union of a gamete from parent p (tau_p
alleles) and one from parent q (tau_q alleles).  A gamete of a known parent is,
with probability 1-error, tau chromosome copies drawn without replacement
(all subsets equally likely; with probability lambda, for tau = 2, two copies of
one uniformly chosen chromosome), and with probability error tau alleles drawn
independently from the population frequencies.  Unknown parent: population.
"""

import itertools
import math


def multisets(n_alleles, size):
    return list(itertools.combinations_with_replacement(range(n_alleles), size))


def population_gamete(tau, freqs):
    out = {}
    for g in multisets(len(freqs), tau):
        counts = {}
        for a in g:
            counts[a] = counts.get(a, 0) + 1
        coef = math.factorial(tau)
        for c in counts.values():
            coef //= math.factorial(c)
        pr = float(coef)
        for a, c in counts.items():
            pr *= freqs[a] ** c
        out[g] = pr
    return out


def parent_gamete(parent, tau, lam=0.0):
    """parent: tuple of alleles (length = ploidy)."""
    m = len(parent)
    out = {}
    if tau > m:
        return out
    n_sub = math.comb(m, tau)
    for idx in itertools.combinations(range(m), tau):
        g = tuple(sorted(parent[i] for i in idx))
        out[g] = out.get(g, 0.0) + (1.0 - lam) / n_sub
    if lam > 0:
        assert tau == 2
        for i in range(m):
            g = (parent[i], parent[i])
            out[g] = out.get(g, 0.0) + lam / m
    return {g: p for g, p in out.items() if p > 0}


def gamete_dist(parent, tau, lam, error, freqs):
    """parent None = unknown."""
    pop = population_gamete(tau, freqs)
    if parent is None or tau == 0:
        return pop
    out = {}
    for g, p in parent_gamete(parent, tau, lam).items():
        out[g] = out.get(g, 0.0) + (1.0 - error) * p
    if error > 0:
        for g, p in pop.items():
            out[g] = out.get(g, 0.0) + error * p
    return out


def trio_dist(parent_p, parent_q, tau_p, tau_q, lam_p, lam_q, err_p, err_q, freqs):
    dp = gamete_dist(parent_p, tau_p, lam_p, err_p, freqs)
    dq = gamete_dist(parent_q, tau_q, lam_q, err_q, freqs)
    out = {}
    for gp, pp in dp.items():
        for gq, pq in dq.items():
            g = tuple(sorted(gp + gq))
            out[g] = out.get(g, 0.0) + pp * pq
    return out


def joint_log_prior(genotypes, parents, tau, lam, err, freqs):
    """Sum over individuals of log P(g_i | parents).  genotypes: list of tuples."""
    total = 0.0
    for i, g in enumerate(genotypes):
        p, q = parents[i]
        d = trio_dist(
            None if p < 0 else tuple(genotypes[p]),
            None if q < 0 else tuple(genotypes[q]),
            tau[i][0], tau[i][1], lam[i][0], lam[i][1],
            1.0 if p < 0 else err[i][0], 1.0 if q < 0 else err[i][1], freqs,
        )
        pr = d.get(tuple(sorted(g)), 0.0)
        if pr <= 0:
            return float("-inf")
        total += math.log(pr)
    return total
