"""Strict, header-driven VCF text checker (no pysam, no mchap)."""

import math
import re

INT_RE = re.compile(r"^-?\d+$")
FLOAT_RE = re.compile(r"^-?(\d+\.?\d*|\.\d+)([eE][-+]?\d+)?$")
META_RE = re.compile(r"^##(INFO|FORMAT)=<ID=([^,]+),Number=([^,]+),Type=([^,]+),Description=\"(.*)\">$")


def parse_header(lines):
    info, fmt, filters, contigs = {}, {}, set(), {}
    samples = None
    problems = []
    for l in lines:
        if l.startswith("##INFO") or l.startswith("##FORMAT"):
            m = META_RE.match(l)
            if not m:
                problems.append("malformed meta line: %s" % l)
                continue
            (info if m.group(1) == "INFO" else fmt)[m.group(2)] = (m.group(3), m.group(4))
        elif l.startswith("##FILTER=<ID="):
            filters.add(l.split("ID=")[1].split(",")[0])
        elif l.startswith("##contig=<ID="):
            name = l.split("ID=")[1].split(",")[0].rstrip(">")
            contigs[name] = l
        elif l.startswith("#CHROM"):
            cols = l.split("\t")
            if cols[:9] != ["#CHROM", "POS", "ID", "REF", "ALT", "QUAL", "FILTER", "INFO", "FORMAT"]:
                problems.append("bad column line: %s" % l)
            samples = cols[9:]
    if samples is None:
        problems.append("no #CHROM line")
        samples = []
    return {"info": info, "format": fmt, "filters": filters, "contigs": contigs, "samples": samples}, problems


def n_genotypes(n_alleles, ploidy):
    return math.comb(n_alleles + ploidy - 1, ploidy)


def check_value(kind, token):
    if token == ".":
        return True
    if kind == "Integer":
        return bool(INT_RE.match(token))
    if kind == "Float":
        return bool(FLOAT_RE.match(token))
    return True


def expected_count(number, n_alt, ploidy):
    if number == "A":
        return n_alt
    if number == "R":
        return n_alt + 1
    if number == "G":
        return None if ploidy is None else n_genotypes(n_alt + 1, ploidy)
    if number == ".":
        return None
    return int(number)


def check_record(line, meta):
    """Returns (parsed dict or None, list of problem strings)."""
    problems = []
    c = line.split("\t")
    n_s = len(meta["samples"])
    if len(c) != 9 + n_s:
        return None, ["record has %d columns, header declares %d samples: %s" % (len(c), n_s, line[:200])]
    if any(x == "" for x in c):
        problems.append("empty column in record")
    if any(tok in ("None", "nan", "NaN", "inf", "-inf", "True", "False") for col in c[3:] for tok in re.split(r"[:;,=/|\t]", col)):
        problems.append("python literal (None/nan/inf/True/False) printed in record: %s" % line[:300])
    chrom, pos, vid, ref, alt, qual, flt, info, fmt = c[:9]
    if not INT_RE.match(pos) or int(pos) < 1:
        problems.append("POS %r" % pos)
    if not re.match(r"^[ACGTN]+$", ref):
        problems.append("REF %r" % ref)
    alts = [] if alt == "." else alt.split(",")
    for a in alts:
        if not re.match(r"^[ACGTN]+$", a):
            problems.append("ALT %r" % a)
    if len(set([ref] + alts)) != len(alts) + 1:
        problems.append("duplicate allele sequences: %s %s" % (ref, alts))
    n_alt = len(alts)
    for f in flt.split(";"):
        if f != "." and f not in meta["filters"]:
            problems.append("FILTER %r not declared" % f)
    info_d = {}
    if info != ".":
        for kv in info.split(";"):
            if "=" in kv:
                k, v = kv.split("=", 1)
            else:
                k, v = kv, None
            if k in info_d:
                problems.append("INFO key %s repeated" % k)
            info_d[k] = v
            if k not in meta["info"]:
                problems.append("INFO key %s not declared in header" % k)
                continue
            number, kind = meta["info"][k]
            if kind == "Flag":
                if v is not None:
                    problems.append("INFO flag %s has a value" % k)
                continue
            if v is None:
                problems.append("INFO key %s has no value" % k)
                continue
            toks = v.split(",")
            exp = expected_count(number, n_alt, None)
            if exp is not None and not (len(toks) == exp or toks == ["."]):
                problems.append("INFO %s has %d values, Number=%s requires %d (n_alt=%d): %s" % (k, len(toks), number, exp, n_alt, v))
            if exp == 0 and number != "." and toks != ["."]:
                pass
            for t in toks:
                if not check_value(kind, t):
                    problems.append("INFO %s value %r is not a valid %s" % (k, t, kind))
    keys = fmt.split(":")
    if keys[0] != "GT":
        problems.append("FORMAT does not start with GT: %s" % fmt)
    for k in keys:
        if k not in meta["format"]:
            problems.append("FORMAT key %s not declared in header" % k)
    if len(set(keys)) != len(keys):
        problems.append("FORMAT key repeated: %s" % fmt)
    samples = {}
    for name, col in zip(meta["samples"], c[9:]):
        vals = col.split(":")
        if len(vals) != len(keys):
            problems.append("sample %s has %d fields, FORMAT has %d" % (name, len(vals), len(keys)))
            continue
        d = dict(zip(keys, vals))
        samples[name] = d
        gt = d.get("GT", "")
        alleles = re.split(r"[/|]", gt)
        ploidy = len(alleles)
        called = []
        seen_missing = False
        for a in alleles:
            if a == ".":
                seen_missing = True
                continue
            if not INT_RE.match(a) or int(a) < 0 or int(a) > n_alt:
                problems.append("sample %s GT %s uses allele %r with %d ALT alleles" % (name, gt, a, n_alt))
                continue
            if seen_missing and "|" not in gt:
                problems.append("sample %s GT %s: '.' must come last" % (name, gt))
            called.append(int(a))
        if "|" not in gt and called != sorted(called):
            problems.append("sample %s GT %s is not sorted" % (name, gt))
        d["_ploidy"] = ploidy
        d["_alleles"] = called
        for k in keys[1:]:
            if k not in meta["format"]:
                continue
            number, kind = meta["format"][k]
            toks = d[k].split(",")
            exp = expected_count(number, n_alt, ploidy)
            if exp is not None and not (len(toks) == exp or toks == ["."]):
                problems.append("sample %s FORMAT %s has %d values, Number=%s requires %d (n_alt=%d, ploidy=%d): %s" % (name, k, len(toks), number, exp, n_alt, ploidy, d[k][:80]))
            for t in toks:
                if not check_value(kind, t):
                    problems.append("sample %s FORMAT %s value %r is not a valid %s" % (name, k, t, kind))
    rec = {"CHROM": chrom, "POS": int(pos) if INT_RE.match(pos) else None, "ID": vid, "REF": ref, "ALT": alts, "FILTER": flt,
           "INFO": info_d, "FORMAT": keys, "samples": samples}
    return rec, problems


def floats(token):
    """'1,2,.' -> [1.0, 2.0, None]"""
    if token is None:
        return None
    return [None if t == "." else float(t) for t in token.split(",")]


def decimals(token):
    """number of decimal digits printed for each value"""
    out = []
    for t in token.split(","):
        if t == "." or "e" in t.lower():
            out.append(0)
        else:
            out.append(len(t.split(".")[1]) if "." in t else 0)
    return out
