"""Shared machinery: environment, case recorder, hypothesis driver, evidence.

Every check module exposes

    PROPERTY = "Cxx"
    RULE = "<how cases are generated and what makes one non-trivial>"
    ASSUMPTIONS = [...]
    def run(ctx): ...            # explores; reports through ctx
    def replay(ctx, case): ...   # re-checks one decoded case (plain JSON)

A *case* is always a plain JSON-able dict carrying a "kind" key, so that a
replay file is self contained and bypasses hypothesis.
"""

import hashlib
import json
import os
import sys
import time
import traceback
import warnings
from collections import Counter

VERIF = os.path.dirname(os.path.dirname(os.path.abspath(__file__)))
REPO = os.environ.get("VERIF_REPO", "/repo")


# --------------------------------------------------------------------------
# environment


def tree_hash():
    """sha256 over every python source of the working tree's mchap package."""
    h = hashlib.sha256()
    root = os.path.join(REPO, "mchap")
    paths = []
    for d, dirs, files in os.walk(root):
        dirs[:] = sorted(x for x in dirs if x != "__pycache__")
        for f in sorted(files):
            if f.endswith(".py"):
                paths.append(os.path.join(d, f))
    for p in sorted(paths):
        h.update(p.encode())
        with open(p, "rb") as fh:
            h.update(fh.read())
    try:
        # NOT "import numba": numba reads NUMBA_CACHE_DIR when it is first imported
        from importlib.metadata import version

        h.update(version("numba").encode())
    except Exception:
        pass
    h.update(sys.version.encode())
    return h.hexdigest()[:20]


def setup_env():
    """Must run before mchap / numba compile anything.

    numba's on-disk cache (cache=True) is keyed on the defining file only, so
    an edit to a callee in another file would leave stale machine code for its
    callers.  The cache directory is therefore keyed on a hash of the whole
    package: unchanged tree -> compiled code shared between checks, any edit ->
    full recompile.
    """
    if REPO not in sys.path:
        sys.path.insert(0, REPO)  # the tree under test wins over the editable install
    if os.environ.get("VF_ENV_READY") == "1" and os.environ.get("NUMBA_CACHE_DIR"):
        return os.environ["NUMBA_CACHE_DIR"]
    th = tree_hash()
    base = os.path.join(VERIF, ".cache")
    os.makedirs(base, exist_ok=True)
    cache = os.path.join(base, "numba-" + th)
    if not os.path.isdir(cache):
        # drop caches of other trees (disk is limited); keep at most 2 others
        olds = sorted(
            (os.path.join(base, d) for d in os.listdir(base) if d.startswith("numba-")),
            key=lambda p: os.path.getmtime(p),
        )
        import shutil

        for old in olds[:-5]:
            shutil.rmtree(old, ignore_errors=True)
        os.makedirs(cache, exist_ok=True)
    try:
        os.utime(cache, None)  # LRU: the tree in use stays the most recent
    except OSError:
        pass
    if "numba" in sys.modules and os.environ.get("NUMBA_CACHE_DIR") != cache:
        raise HarnessError("numba was imported before the cache directory was configured")
    os.environ["NUMBA_CACHE_DIR"] = cache
    os.environ["VF_ENV_READY"] = "1"
    os.environ.setdefault("PYTHONHASHSEED", "0")
    if REPO not in sys.path:
        sys.path.insert(0, REPO)
    return cache


def work_dir():
    d = os.path.join(VERIF, ".work", str(os.getpid()))
    os.makedirs(d, exist_ok=True)
    return d


def cleanup_work_dir():
    import shutil

    shutil.rmtree(os.path.join(VERIF, ".work", str(os.getpid())), ignore_errors=True)


# --------------------------------------------------------------------------
# problems


class Problem:
    """One property violation found in one case."""

    def __init__(self, signature, message):
        self.signature = signature
        self.message = message

    def __repr__(self):
        return "Problem(%r, %r)" % (self.signature, self.message)


class CaseFailure(Exception):
    def __init__(self, problem, case):
        super().__init__("%s: %s" % (problem.signature, problem.message))
        self.problem = problem
        self.case = case


class HarnessError(Exception):
    pass


class guard:
    """Context manager: an exception escaping the wrapped call into mchap is a
    property violation (crash on an input the property says is handled), with a
    signature built from the label and the exception type."""

    def __init__(self, problems, label, allow=()):
        self.problems = problems
        self.label = label
        self.allow = allow
        self.failed = False

    def __enter__(self):
        return self

    def __exit__(self, et, ev, tb):
        if et is None:
            return False
        if issubclass(et, (KeyboardInterrupt, SystemExit, HarnessError, MemoryError)):
            return False
        if self.allow and issubclass(et, self.allow):
            self.failed = True
            return True
        self.failed = True
        msg = "".join(traceback.format_exception_only(et, ev)).strip()
        self.problems.append(
            Problem("%s:raised:%s" % (self.label, et.__name__), msg[:500])
        )
        return True


def jsonable(x):
    import numpy as np

    if isinstance(x, dict):
        return {str(k): jsonable(v) for k, v in x.items()}
    if isinstance(x, (list, tuple)):
        return [jsonable(v) for v in x]
    if isinstance(x, np.ndarray):
        return jsonable(x.tolist())
    if isinstance(x, (np.integer,)):
        return int(x)
    if isinstance(x, (np.floating,)):
        x = float(x)
    if isinstance(x, float):
        if x != x:
            return None
        if x in (float("inf"), float("-inf")):
            return "inf" if x > 0 else "-inf"
        return x
    if isinstance(x, (np.bool_,)):
        return bool(x)
    return x


def case_hash(case):
    return hashlib.sha1(
        json.dumps(jsonable(case), sort_keys=True, default=str).encode()
    ).hexdigest()[:16]


# --------------------------------------------------------------------------
# context


class Ctx:
    def __init__(self, prop, tier, seed, shard=0, nshards=1, known=None, budget_s=None):
        self.prop = prop
        self.tier = tier
        self.seed = seed
        self.shard = shard
        self.nshards = nshards
        self.known = known or []  # list of open findings (dicts with 'signature')
        self.t0 = time.time()
        self.budget_s = budget_s
        self.evaluations = 0
        self.nontrivial = set()
        self.bulk_nontrivial = 0
        self.samples = []
        self.classes = Counter()
        self.violations = {}  # signature -> dict(case=, message=)
        self.known_hits = Counter()
        self.excluded_by_known_finding = 0
        self.notes = {}
        self.exhaustive = None
        self.budget_exhausted = False
        self._hyp_idx = 0
        self.quick = tier == "quick"
        self.journal_path = os.environ.get("VF_JOURNAL") or None

    def journal(self, case):
        """Write the case about to be executed, so that a hard crash (segfault in
        jitted code) of the worker can still be reported with a replayable input."""
        if self.journal_path:
            try:
                with open(self.journal_path, "w") as fh:
                    json.dump(jsonable(case), fh, default=str)
            except Exception:
                pass

    # ---- recording
    def record(self, case, nontrivial, classes=()):
        self.evaluations += 1
        for c in classes:
            self.classes[c] += 1
        if nontrivial:
            h = case_hash(case)
            if h not in self.nontrivial:
                self.nontrivial.add(h)
                if len(self.samples) < 4 and (
                    not self.samples
                    or self.samples[-1].get("kind") != case.get("kind")
                    or len(self.samples) < 2
                ):
                    self.add_sample(case)

    def record_bulk(self, n_eval, n_nontrivial_distinct, sample=None, classes=None):
        """For enumerations whose cases are distinct by construction."""
        self.evaluations += int(n_eval)
        self.bulk_nontrivial += int(n_nontrivial_distinct)
        if classes:
            for k, v in classes.items():
                self.classes[k] += int(v)
        if sample is not None and len(self.samples) < 6:
            self.add_sample(sample)

    def add_sample(self, case):
        s = jsonable(case)
        txt = json.dumps(s, default=str)
        if len(txt) > 6000:
            s = {"kind": s.get("kind") if isinstance(s, dict) else None,
                 "truncated_json": txt[:6000]}
        self.samples.append(s)

    def note(self, key, value):
        self.notes[key] = jsonable(value)

    def count(self, key, n=1):
        self.classes[key] += n

    # ---- known findings
    def is_known(self, signature):
        for k in self.known:
            if k.get("status") == "open" and signature.startswith(k["signature"]):
                return k
        return None

    # ---- judging
    def judge(self, case, problems):
        """Returns the first problem that is not a known finding (or None)."""
        first = None
        for p in problems:
            k = self.is_known(p.signature)
            if k is not None:
                self.known_hits[k["signature"]] += 1
            elif first is None:
                first = p
        return first

    def violation(self, problem, case):
        if problem.signature not in self.violations:
            self.violations[problem.signature] = {
                "case": jsonable(case),
                "message": problem.message,
            }

    def check(self, case, problems):
        """Non-hypothesis path: judge and record a violation directly."""
        p = self.judge(case, problems)
        if p is not None:
            self.violation(p, case)
        return p

    def time_left(self):
        if self.budget_s is None:
            return 1e9
        return self.budget_s - (time.time() - self.t0)

    # ---- hypothesis driver
    def hyp(self, name, strategy, check_case, max_examples, shrink=True):
        """Drive `check_case(case) -> list[Problem]` with hypothesis.

        Failures are shrunk by hypothesis; the minimal decoded case becomes the
        replay file.  Known (open) findings are counted, not raised, so the
        search continues behind them.  After one violation is found in this
        sub-check it stops (hypothesis semantics); other sub-checks still run.
        """
        import hypothesis
        from hypothesis import HealthCheck, Phase, given, settings

        self._hyp_idx += 1
        if self.time_left() <= 0:
            self.budget_exhausted = True
            return
        seed = (self.seed * 1000003 + self.shard * 1009 + self._hyp_idx * 7) % (2**63)
        last = {}
        ctx = self

        phases = [Phase.generate] + ([Phase.shrink] if shrink else [])

        @hypothesis.seed(seed)
        @settings(
            max_examples=max_examples,
            deadline=None,
            database=None,
            derandomize=False,
            report_multiple_bugs=False,
            suppress_health_check=list(HealthCheck),
            phases=phases,
            print_blob=False,
        )
        @given(strategy)
        def test(case):
            if ctx.time_left() <= 0 and not last:
                ctx.budget_exhausted = True
                return
            ctx.journal(case)
            with warnings.catch_warnings():
                warnings.simplefilter("ignore")
                problems = check_case(ctx, case)
            p = ctx.judge(case, problems or [])
            if p is not None:
                last["case"] = case
                last["problem"] = p
                raise CaseFailure(p, case)

        try:
            test()
        except CaseFailure as e:
            self.violation(last.get("problem", e.problem), last.get("case", e.case))
        except HarnessError:
            raise
        except Exception as e:
            # hypothesis internal complaints (Flaky etc.) with a recorded failure
            if last:
                self.violation(last["problem"], last["case"])
            else:
                raise HarnessError(
                    "sub-check %s crashed in the harness: %s\n%s"
                    % (name, e, traceback.format_exc())
                )
        self.count("subcheck:" + name + ":done")


# --------------------------------------------------------------------------
# evidence


def write_evidence(ctx, module, wall_s, extra_nontrivial=0):
    cov = {
        "evaluations": int(ctx.evaluations),
        "distinct_nontrivial": int(len(ctx.nontrivial) + ctx.bulk_nontrivial + extra_nontrivial),
        "rule": module.RULE,
        "samples": ctx.samples[:6] if ctx.samples else [],
        "classes": dict(sorted(ctx.classes.items())),
        "known_finding_hits": dict(ctx.known_hits),
        "excluded_by_known_finding": ctx.excluded_by_known_finding,
        "budget_exhausted": bool(ctx.budget_exhausted),
        "shards": ctx.nshards,
        "notes": ctx.notes,
    }
    if ctx.exhaustive is not None:
        cov["exhaustive"] = bool(ctx.exhaustive)
    ev = {
        "property_id": ctx.prop,
        "tier": ctx.tier,
        "seed": int(ctx.seed),
        "level": "exploration",
        "coverage": cov,
        "assumptions": list(getattr(module, "ASSUMPTIONS", [])),
        "wall_s": round(float(wall_s), 3),
        "violations": len(ctx.violations),
    }
    os.makedirs(os.path.join(VERIF, "evidence"), exist_ok=True)
    path = os.path.join(VERIF, "evidence", ctx.prop + ".json")
    tmp = path + ".tmp%d" % os.getpid()
    with open(tmp, "w") as fh:
        json.dump(ev, fh, indent=1, default=str)
        fh.write("\n")
    os.replace(tmp, path)
    return path


def load_known(prop):
    path = os.path.join(VERIF, "known_findings.json")
    if not os.path.exists(path):
        return []
    with open(path) as fh:
        data = json.load(fh)
    return [f for f in data.get("findings", []) if f.get("property") == prop]


def write_replay(prop, signature, payload):
    d = os.path.join(VERIF, "replays", prop)
    os.makedirs(d, exist_ok=True)
    body = {
        "property": prop,
        "signature": signature,
        "message": payload["message"],
        "case": payload["case"],
    }
    name = hashlib.sha1(
        json.dumps(body, sort_keys=True, default=str).encode()
    ).hexdigest()[:12]
    path = os.path.join(d, name + ".json")
    with open(path, "w") as fh:
        json.dump(body, fh, indent=1, default=str)
        fh.write("\n")
    return os.path.relpath(path, VERIF)
